import Tmcg.Model.TmcgCard
import TmcgProofs.Base
import Mathlib.NumberTheory.LegendreSymbol.JacobiSymbol
import Mathlib.NumberTheory.LegendreSymbol.QuadraticReciprocity
/-
  C01, quadratic-residuosity encoding (Schindelhauer's toolbox): a card created with type `T`
  and masked any number of times opens to `T` once every player has contributed its bits.
-/
namespace Tmcg.TmcgOpen
open Tmcg Tmcg.TmcgCard
open NumberTheorySymbols

theorem jacobiGo_spec : ∀ (f a n : Nat) (acc : Int), n % 2 = 1 → a < n → a * n < 2 ^ f →
    jacobiGo (f + 1) a n acc = acc * jacobiSym a n := by
  intro f
  induction f with
  | zero =>
    intro a n acc hn han hf
    have ha : a = 0 := by
      rcases Nat.eq_zero_or_pos a with h | h
      · exact h
      · have : 1 ≤ a * n := Nat.mul_pos h (by omega)
        omega
    subst ha
    unfold jacobiGo
    simp only [if_true]
    by_cases h1 : n = 1
    · subst h1; simp
    · have : 1 < n := by omega
      simp [h1, jacobiSym.zero_left this]
  | succ f ih =>
    intro a n acc hn han hf
    unfold jacobiGo
    by_cases ha : a = 0
    · subst ha
      simp only [if_true]
      by_cases h1 : n = 1
      · subst h1; simp
      · have : 1 < n := by omega
        simp [h1, jacobiSym.zero_left this]
    · simp only [ha, if_false]
      by_cases he : a % 2 = 0
      · simp only [he, if_true]
        have hlt : a / 2 < n := by omega
        have hfuel : a / 2 * n < 2 ^ f := by
          have h2 : a = 2 * (a / 2) := by omega
          rw [h2, pow_succ] at hf
          nlinarith
        rw [ih _ _ _ hn hlt hfuel]
        have h2 : (a : Int) = 2 * ((a / 2 : Nat) : Int) := by omega
        conv_rhs => rw [h2, jacobiSym.mul_left, jacobiSym.at_two (Nat.odd_iff.mpr hn),
          ZMod.χ₈_nat_eq_if_mod_eight]
        have : n % 2 ≠ 0 := by omega
        simp only [this, if_false]
        have h8 : n % 8 = 1 ∨ n % 8 = 3 ∨ n % 8 = 5 ∨ n % 8 = 7 := by omega
        rcases h8 with h | h | h | h <;> simp [h]
      · simp only [he, if_false]
        have ho : a % 2 = 1 := by omega
        have hapos : 0 < a := by omega
        have hlt : n % a < a := Nat.mod_lt _ hapos
        have hfuel : n % a * a < 2 ^ f := by
          have h1 : n = a * (n / a) + n % a := (Nat.div_add_mod n a).symm
          have h2 : 1 ≤ n / a := Nat.div_pos (le_of_lt han) hapos
          have h3 : 2 * (n % a) < n := by nlinarith
          rw [pow_succ] at hf
          nlinarith
        rw [ih _ _ _ ho hlt hfuel, ← jacobiSym.quadratic_reciprocity_if ho hn]
        have hm : J(((n % a : Nat) : Int) | a) = J((n : Int) | a) := by
          rw [jacobiSym.mod_left (n : Int) a]; norm_cast
        rw [hm]
        by_cases h3 : a % 4 = 3 ∧ n % 4 = 3
        · simp [h3]
        · simp [h3]

theorem lt_two_pow_bitlen (x : Nat) : x < 2 ^ bitlen (x : Int) := by
  unfold bitlen
  simp only [Int.natAbs_natCast]
  by_cases h : x = 0
  · subst h; simp
  · simp only [h, if_false]; exact Nat.lt_log2_self

/-- the executable binary Jacobi algorithm of the model computes the Jacobi symbol -/
theorem jacobi_eq_jacobiSym (a : Int) (n : Nat) (hn : n % 2 = 1) :
    jacobi a n = jacobiSym a n := by
  unfold jacobi
  have hnpos : (0 : Int) < n := by omega
  have hnn : 0 ≤ a % (n : Int) := Int.emod_nonneg _ (by omega)
  have hlt : a % (n : Int) < n := Int.emod_lt_of_pos _ hnpos
  have hcast : (((a % (n : Int)).toNat : Nat) : Int) = a % n := Int.toNat_of_nonneg hnn
  have han : (a % (n : Int)).toNat < n := by omega
  simp only []
  generalize (a % (n : Int)).toNat = a' at *
  have hfuel : a' * n < 2 ^ (2 * (bitlen a' + bitlen n) + 3) := by
    have h1 := lt_two_pow_bitlen a'
    have h2 := lt_two_pow_bitlen n
    calc a' * n < 2 ^ bitlen a' * 2 ^ bitlen n := Nat.mul_lt_mul'' h1 h2
      _ = 2 ^ (bitlen a' + bitlen n) := (pow_add _ _ _).symm
      _ ≤ _ := Nat.pow_le_pow_right (by norm_num) (by omega)
  rw [show 2 * (bitlen (a' : Int) + bitlen (n : Int)) + 4 = (2 * (bitlen a' + bitlen n) + 3) + 1 from rfl,
    jacobiGo_spec _ _ _ _ hn han hfuel, one_mul, hcast, ← jacobiSym.mod_left]

/-- a well-formed key: `m = p·q` with distinct odd primes, `y` a non-residue modulo both
    (so `(y/m) = +1` but `y` is not a square: the encoding of a 1-bit) -/
structure KeyOk (k : SecKey) : Prop where
  p_pos : 0 < k.p
  q_pos : 0 < k.q
  p_prime : Nat.Prime k.p.natAbs
  q_prime : Nat.Prime k.q.natAbs
  p_odd : k.p % 2 = 1
  q_odd : k.q % 2 = 1
  m_eq : k.pub.m = k.p * k.q
  y_nqr_p : jacobi k.pub.y k.p.natAbs = -1
  y_nqr_q : jacobi k.pub.y k.q.natAbs = -1

/-- a card secret fitting `keys` and `w`: dimensions `k × w`, every `r` a unit modulo the
    player's modulus, every column of `b` XORs to zero -/
structure SecretOk (keys : List SecKey) (w : Nat) (cs : CardSecret) : Prop where
  r_rows : cs.r.length = keys.length
  b_rows : cs.b.length = keys.length
  r_cols : ∀ row ∈ cs.r, row.length = w
  b_cols : ∀ row ∈ cs.b, row.length = w
  r_unit : ∀ i (hi : i < keys.length) (row : List Int), cs.r[i]? = some row →
    ∀ r ∈ row, Int.gcd r keys[i].pub.m = 1
  col_xor : ∀ j, j < w → xorBits (cs.b.map fun row => lowBit (row.getD j 0)) = false

/-! ### XOR of bit lists -/

theorem xorBits_nil : xorBits [] = false := rfl

theorem xorBits_append_singleton (l : List Bool) (x : Bool) :
    xorBits (l ++ [x]) = (xorBits l != x) := by
  simp [xorBits, List.foldl_append]

theorem xorBits_map_range_succ (g : Nat → Bool) (n : Nat) :
    xorBits ((List.range (n + 1)).map g) = (xorBits ((List.range n).map g) != g n) := by
  rw [List.range_succ, List.map_append, List.map_singleton, xorBits_append_singleton]

/-- XOR of a pointwise XOR -/
theorem xorBits_map_xor (g h : Nat → Bool) (n : Nat) :
    xorBits ((List.range n).map fun k => (g k != h k)) =
      (xorBits ((List.range n).map g) != xorBits ((List.range n).map h)) := by
  induction n with
  | zero => simp [xorBits]
  | succ n ih =>
    rw [xorBits_map_range_succ, xorBits_map_range_succ, xorBits_map_range_succ, ih]
    cases xorBits ((List.range n).map g) <;> cases xorBits ((List.range n).map h) <;>
      cases g n <;> cases h n <;> rfl

theorem xorBits_map_single (i : Nat) (c : Bool) (n : Nat) :
    xorBits ((List.range n).map fun k => if k = i then c else false) =
      (if i < n then c else false) := by
  induction n with
  | zero => simp [xorBits]
  | succ n ih =>
    rw [xorBits_map_range_succ, ih]
    by_cases h1 : i < n
    · have : n ≠ i := by omega
      have h2 : i < n + 1 := by omega
      simp [h1, h2, this]
    · by_cases h2 : n = i
      · subst h2; simp
      · have h3 : ¬ i < n + 1 := by omega
        simp [h1, h2, h3]

theorem foldl_xor_init (a : Bool) (l : List Bool) :
    l.foldl (fun a b => a != b) a = (a != l.foldl (fun a b => a != b) false) := by
  induction l generalizing a with
  | nil => simp
  | cons x l ih =>
    simp only [List.foldl_cons]
    rw [ih (a != x), ih (false != x)]
    cases a <;> cases x <;> simp

theorem xorBits_cons (x : Bool) (l : List Bool) : xorBits (x :: l) = (x != xorBits l) := by
  simp only [xorBits, List.foldl_cons]
  rw [foldl_xor_init]; simp

theorem xorBits_false_cons (l : List Bool) : xorBits (false :: l) = xorBits l := by
  simp [xorBits]

theorem xorBits_filterMap_skip (f : Nat → Bool) (i : Nat) (l : List Nat) :
    xorBits (l.filterMap fun k => if k = i then none else some (f k)) =
      xorBits (l.map fun k => if k = i then false else f k) := by
  induction l with
  | nil => rfl
  | cons a l ih =>
    by_cases h : a = i
    · simp only [List.filterMap_cons, h, if_true, List.map_cons, xorBits_false_cons]
      simpa using ih
    · simp only [List.filterMap_cons, h, if_false, List.map_cons]
      rw [xorBits_cons, xorBits_cons, ih]


theorem getD_map_range {α : Type} (g : Nat → α) (w j : Nat) (d : α) (hj : j < w) :
    ((List.range w).map g).getD j d = g j := by
  simp [List.getD, hj]

theorem lowBit_ite (c : Bool) : lowBit (if c then (1 : Int) else 0) = c := by
  cases c <;> simp [lowBit]

/-- what `TMCG_CreateCardSecret` produces: whatever bits were drawn for the other rows, after the
    fix-up of row `index` every column XORs to zero -/
theorem fixupB_col_xor (b : Matrix) (index w : Nat) (hi : index < b.length)
    (hcols : ∀ row ∈ b, row.length = w) (j : Nat) (hj : j < w) :
    xorBits ((fixupB b index w).map fun row => lowBit (row.getD j 0)) = false := by
  have _ := hcols
  unfold fixupB
  simp only [List.map_map]
  set f : Nat → Bool := fun k => lowBit ((b.getD k []).getD j 0) with hf
  set c : Bool := xorBits ((List.range b.length).filterMap fun k =>
      if k = index then none else some (f k)) with hc
  have hfun : ((fun row : List Int => lowBit (row.getD j 0)) ∘ fun k =>
        if k = index then (List.range w).map (fun j => if
          xorBits ((List.range b.length).filterMap fun k =>
            if k = index then none else some (lowBit ((b.getD k []).getD j 0))) then (1 : Int) else 0)
        else b.getD k []) =
      fun k => ((if k = index then false else f k) != (if k = index then c else false)) := by
    funext k
    by_cases hk : k = index
    · simp only [Function.comp, hk, if_true]
      rw [getD_map_range _ _ _ _ hj, lowBit_ite]
      simp [hc, hf]
    · simp [Function.comp, hk, hf]
  rw [hfun, xorBits_map_xor, xorBits_map_single, if_pos hi, hc, xorBits_filterMap_skip]
  simp

theorem fixupB_shape (b : Matrix) (index w : Nat) (hcols : ∀ row ∈ b, row.length = w) :
    (fixupB b index w).length = b.length ∧ ∀ row ∈ fixupB b index w, row.length = w := by
  unfold fixupB
  refine ⟨by simp, ?_⟩
  intro row hrow
  simp only [List.mem_map, List.mem_range] at hrow
  obtain ⟨k, hk, rfl⟩ := hrow
  by_cases h : k = index
  · simp [h]
  · simp only [h, if_false]
    apply hcols
    simp [List.getD, hk]

/-- Jacobi symbol of a masked value modulo a prime factor `P` of the modulus -/
theorem jacobiSym_maskValue (key : PubKey) (P : Nat) (hP : (P : Int) ∣ key.m) (z r b : Int)
    (hr : Int.gcd r P = 1) :
    J(maskValue key z r b | P) = J(z | P) * (if lowBit b then J(key.y | P) else 1) := by
  have red : ∀ x : Int, J(x % key.m | P) = J(x | P) := by
    intro x
    rw [jacobiSym.mod_left (x % key.m), Int.emod_emod_of_dvd _ hP, ← jacobiSym.mod_left]
  have hr2 : J(r | P) * J(r | P) = 1 := by
    have := jacobiSym.sq_one hr
    rwa [pow_two] at this
  have hzz : J((r * r % key.m) * z % key.m | P) = J(z | P) := by
    rw [red, jacobiSym.mul_left, red, jacobiSym.mul_left, hr2, one_mul]
  unfold maskValue
  cases hb : lowBit b
  · simp only [Bool.false_eq_true, if_false]
    rw [hzz]; simp
  · simp only [if_true]
    rw [red, jacobiSym.mul_left, hzz]

theorem gcd_of_gcd_mul_left {z a b : Int} (h : Int.gcd z (a * b) = 1) : Int.gcd z a = 1 := by
  rw [← Int.isCoprime_iff_gcd_eq_one] at h ⊢
  exact (IsCoprime.mul_right_iff.mp h).1

theorem gcd_of_gcd_mul_right {z a b : Int} (h : Int.gcd z (a * b) = 1) : Int.gcd z b = 1 := by
  rw [← Int.isCoprime_iff_gcd_eq_one] at h ⊢
  exact (IsCoprime.mul_right_iff.mp h).2

theorem gcd_mul_of_gcd {z a b : Int} (h1 : Int.gcd z a = 1) (h2 : Int.gcd z b = 1) :
    Int.gcd z (a * b) = 1 := by
  rw [← Int.isCoprime_iff_gcd_eq_one] at h1 h2 ⊢
  exact IsCoprime.mul_right h1 h2

/-- masking one value with a unit `r` changes its quadratic character (modulo both primes)
    exactly when the bit `b` is set -/
theorem maskValue_qrmn (k : SecKey) (hk : KeyOk k) (z r b : Int)
    (hz : Int.gcd z k.pub.m = 1) (hr : Int.gcd r k.pub.m = 1)
    (hzc : jacobi z k.p.natAbs = jacobi z k.q.natAbs) :
    let zz := maskValue k.pub z r b
    Int.gcd zz k.pub.m = 1 ∧ jacobi zz k.p.natAbs = jacobi zz k.q.natAbs ∧
    (qrmn zz k.p k.q = (qrmn z k.p k.q != lowBit b)) := by
  intro zz
  have hpc : ((k.p.natAbs : Nat) : Int) = k.p := Int.natAbs_of_nonneg (le_of_lt hk.p_pos)
  have hqc : ((k.q.natAbs : Nat) : Int) = k.q := Int.natAbs_of_nonneg (le_of_lt hk.q_pos)
  have hpo : k.p.natAbs % 2 = 1 := by have := hk.p_odd; omega
  have hqo : k.q.natAbs % 2 = 1 := by have := hk.q_odd; omega
  have hpd : ((k.p.natAbs : Nat) : Int) ∣ k.pub.m := by rw [hpc, hk.m_eq]; exact dvd_mul_right _ _
  have hqd : ((k.q.natAbs : Nat) : Int) ∣ k.pub.m := by rw [hqc, hk.m_eq]; exact dvd_mul_left _ _
  rw [hk.m_eq] at hz hr
  have hzp : Int.gcd z (k.p.natAbs : Nat) = 1 := by rw [hpc]; exact gcd_of_gcd_mul_left hz
  have hzq : Int.gcd z (k.q.natAbs : Nat) = 1 := by rw [hqc]; exact gcd_of_gcd_mul_right hz
  have hrp : Int.gcd r (k.p.natAbs : Nat) = 1 := by rw [hpc]; exact gcd_of_gcd_mul_left hr
  have hrq : Int.gcd r (k.q.natAbs : Nat) = 1 := by rw [hqc]; exact gcd_of_gcd_mul_right hr
  have hyp := hk.y_nqr_p
  have hyq := hk.y_nqr_q
  rw [jacobi_eq_jacobiSym _ _ hpo] at hyp
  rw [jacobi_eq_jacobiSym _ _ hqo] at hyq
  have h1 := jacobiSym_maskValue k.pub _ hpd z r b hrp
  have h2 := jacobiSym_maskValue k.pub _ hqd z r b hrq
  rw [hyp] at h1
  rw [hyq] at h2
  rw [jacobi_eq_jacobiSym _ _ hpo, jacobi_eq_jacobiSym _ _ hqo] at hzc
  unfold qrmn
  simp only [jacobi_eq_jacobiSym _ _ hpo, jacobi_eq_jacobiSym _ _ hqo]
  change Int.gcd zz _ = 1 ∧ J(zz | _) = J(zz | _) ∧ _
  rw [h1, h2, ← hzc]
  have hne : ∀ s : Int, (s = 1 ∨ s = -1) → s * (if lowBit b = true then (-1 : Int) else 1) ≠ 0 := by
    intro s hs
    rcases hs with rfl | rfl <;> cases lowBit b <;> simp
  have hs := jacobiSym.eq_one_or_neg_one hzp
  refine ⟨?_, rfl, ?_⟩
  · rw [hk.m_eq]
    apply gcd_mul_of_gcd
    · rw [← hpc]
      by_contra hc
      have := (jacobiSym.eq_zero_iff (a := zz) (b := k.p.natAbs)).mpr ⟨by omega, hc⟩
      rw [h1] at this
      exact hne _ hs this
    · rw [← hqc]
      by_contra hc
      have := (jacobiSym.eq_zero_iff (a := zz) (b := k.q.natAbs)).mpr ⟨by omega, hc⟩
      rw [h2, ← hzc] at this
      exact hne _ hs this
  · rcases hs with hs | hs <;> rw [hs] <;> cases lowBit b <;> simp

/-! ### the card invariant -/

/-- entry `(i,j)` of a card, total -/
def entry (c : Card) (i j : Nat) : Int := (c.z.getD i []).getD j 0

/-- key of player `i`, total -/
def kAt (keys : List SecKey) (i : Nat) : SecKey := keys.getD i ⟨⟨0, 0⟩, 0, 0⟩

theorem kAt_getElem? (keys : List SecKey) (i : Nat) (hi : i < keys.length) :
    keys[i]? = some (kAt keys i) := by
  simp [kAt, List.getD, hi]

theorem kAt_eq_getElem (keys : List SecKey) (i : Nat) (hi : i < keys.length) :
    kAt keys i = keys[i] := by
  simp [kAt, List.getD, hi]

theorem kAt_mem (keys : List SecKey) (i : Nat) (hi : i < keys.length) : kAt keys i ∈ keys := by
  rw [kAt_eq_getElem keys i hi]; exact List.getElem_mem hi

/-- the bit player `i` reads off entry `(i,j)` -/
def bitOf (keys : List SecKey) (c : Card) (j i : Nat) : Bool :=
  !qrmn (entry c i j) (kAt keys i).p (kAt keys i).q

def colXor (keys : List SecKey) (c : Card) (j : Nat) : Bool :=
  xorBits ((List.range keys.length).map (bitOf keys c j))

structure CardOk (keys : List SecKey) (w : Nat) (c : Card) : Prop where
  rows : c.z.length = keys.length
  cols : ∀ row ∈ c.z, row.length = w
  ok : ∀ i, i < keys.length → ∀ j, j < w →
    Int.gcd (entry c i j) (kAt keys i).pub.m = 1 ∧
    jacobi (entry c i j) (kAt keys i).p.natAbs = jacobi (entry c i j) (kAt keys i).q.natAbs

theorem mapM_except_ok {α β ε : Type} (f : α → Except ε β) (g : α → β) (l : List α)
    (h : ∀ a ∈ l, f a = .ok (g a)) : l.mapM f = .ok (l.map g) := by
  induction l with
  | nil => rfl
  | cons a l ih =>
    rw [List.mapM_cons, h a (by simp), ih (fun x hx => h x (by simp [hx]))]
    rfl

theorem getD_getElem? {α : Type} (l : List α) (i : Nat) (d : α) (hi : i < l.length) :
    l[i]? = some (l.getD i d) := by
  simp [List.getD, hi]

theorem getD_mem {α : Type} (l : List α) (i : Nat) (d : α) (hi : i < l.length) :
    l.getD i d ∈ l := by
  have : l.getD i d = l[i] := by simp [List.getD, hi]
  rw [this]; exact List.getElem_mem hi

theorem getD_map' {α β : Type} (l : List α) (f : α → β) (j : Nat) (d : α) (d' : β)
    (h : j < l.length) : (l.map f).getD j d' = f (l.getD j d) := by
  simp [List.getD, h]

theorem map_eq_map_range_getD {α β : Type} (l : List α) (F : α → β) (d : α) :
    l.map F = (List.range l.length).map fun i => F (l.getD i d) := by
  apply List.ext_getElem
  · simp
  · intro i h1 h2
    simp at h1
    simp [List.getD, h1]

/-- the masked card, as a total expression -/
def maskedZ (keys : List SecKey) (w : Nat) (c : Card) (cs : CardSecret) : Matrix :=
  (List.range keys.length).map fun i => (List.range w).map fun j =>
    maskValue (kAt keys i).pub (entry c i j) ((cs.r.getD i []).getD j 0) ((cs.b.getD i []).getD j 0)

theorem maskCard_ok (keys : List SecKey) (w : Nat) (c : Card) (cs : CardSecret)
    (hc : CardOk keys w c) (hs : SecretOk keys w cs) :
    maskCard (keys.map (·.pub)) c cs = .ok ⟨maskedZ keys w c cs⟩ := by
  unfold maskCard
  have h1 : ¬ (c.z.length ≠ (keys.map (·.pub)).length ∨ cs.r.length ≠ c.z.length ∨
      cs.b.length ≠ c.z.length) := by
    rw [List.length_map, hc.rows, hs.r_rows, hs.b_rows]; simp
  rw [if_neg h1]
  simp only []
  rw [mapM_except_ok _ (fun i => (List.range w).map fun j =>
    maskValue (kAt keys i).pub (entry c i j) ((cs.r.getD i []).getD j 0)
      ((cs.b.getD i []).getD j 0))]
  · rw [hc.rows]; rfl
  · intro k hk
    rw [List.mem_range, hc.rows] at hk
    have e1 : (keys.map (·.pub))[k]? = some (kAt keys k).pub := by
      rw [List.getElem?_map, kAt_getElem? keys k hk]; rfl
    have e2 := getD_getElem? c.z k [] (by rw [hc.rows]; exact hk)
    have e3 := getD_getElem? cs.r k [] (by rw [hs.r_rows]; exact hk)
    have e4 := getD_getElem? cs.b k [] (by rw [hs.b_rows]; exact hk)
    have l2 := hc.cols _ (getD_mem c.z k [] (by rw [hc.rows]; exact hk))
    have l3 := hs.r_cols _ (getD_mem cs.r k [] (by rw [hs.r_rows]; exact hk))
    have l4 := hs.b_cols _ (getD_mem cs.b k [] (by rw [hs.b_rows]; exact hk))
    simp only [e1, e2, e3, e4, l2, l3, l4, ne_eq, not_true_eq_false, or_self, if_false]
    rfl

theorem entry_maskedZ (keys : List SecKey) (w : Nat) (c : Card) (cs : CardSecret)
    (i j : Nat) (hi : i < keys.length) (hj : j < w) :
    entry ⟨maskedZ keys w c cs⟩ i j =
      maskValue (kAt keys i).pub (entry c i j) ((cs.r.getD i []).getD j 0)
        ((cs.b.getD i []).getD j 0) := by
  unfold entry maskedZ
  rw [getD_map_range _ _ _ _ hi, getD_map_range _ _ _ _ hj]
  rfl

theorem maskedZ_step (keys : List SecKey) (hkeys : ∀ k ∈ keys, KeyOk k) (w : Nat) (c : Card)
    (cs : CardSecret) (hc : CardOk keys w c) (hs : SecretOk keys w cs) :
    CardOk keys w ⟨maskedZ keys w c cs⟩ ∧
      ∀ j, j < w → colXor keys ⟨maskedZ keys w c cs⟩ j = colXor keys c j := by
  have key : ∀ i, i < keys.length → ∀ j, j < w →
      Int.gcd (entry ⟨maskedZ keys w c cs⟩ i j) (kAt keys i).pub.m = 1 ∧
      jacobi (entry ⟨maskedZ keys w c cs⟩ i j) (kAt keys i).p.natAbs =
        jacobi (entry ⟨maskedZ keys w c cs⟩ i j) (kAt keys i).q.natAbs ∧
      bitOf keys ⟨maskedZ keys w c cs⟩ j i =
        (bitOf keys c j i != lowBit ((cs.b.getD i []).getD j 0)) := by
    intro i hi j hj
    rw [bitOf, entry_maskedZ keys w c cs i j hi hj]
    obtain ⟨hz, hzc⟩ := hc.ok i hi j hj
    have hr : Int.gcd ((cs.r.getD i []).getD j 0) (kAt keys i).pub.m = 1 := by
      rw [kAt_eq_getElem keys i hi]
      have hrow := getD_getElem? cs.r i [] (by rw [hs.r_rows]; exact hi)
      apply hs.r_unit i hi _ hrow
      apply getD_mem
      rw [hs.r_cols _ (getD_mem cs.r i [] (by rw [hs.r_rows]; exact hi))]
      exact hj
    obtain ⟨g1, g2, g3⟩ := maskValue_qrmn (kAt keys i) (hkeys _ (kAt_mem keys i hi))
      (entry c i j) ((cs.r.getD i []).getD j 0) ((cs.b.getD i []).getD j 0) hz hr hzc
    refine ⟨g1, g2, ?_⟩
    rw [g3, bitOf]
    cases qrmn (entry c i j) (kAt keys i).p (kAt keys i).q <;>
      cases lowBit ((cs.b.getD i []).getD j 0) <;> rfl
  refine ⟨⟨?_, ?_, ?_⟩, ?_⟩
  · simp [maskedZ]
  · intro row hrow
    simp only [maskedZ, List.mem_map] at hrow
    obtain ⟨i, _, rfl⟩ := hrow
    simp
  · intro i hi j hj
    exact ⟨(key i hi j hj).1, (key i hi j hj).2.1⟩
  · intro j hj
    unfold colXor
    have : (List.range keys.length).map (bitOf keys ⟨maskedZ keys w c cs⟩ j) =
        (List.range keys.length).map fun i =>
          (bitOf keys c j i != lowBit ((cs.b.getD i []).getD j 0)) := by
      apply List.map_congr_left
      intro i hi
      exact (key i (List.mem_range.mp hi) j hj).2.2
    rw [this, xorBits_map_xor]
    have hb := hs.col_xor j hj
    rw [map_eq_map_range_getD cs.b _ [], hs.b_rows] at hb
    rw [hb]; simp

theorem foldlM_maskCard (keys : List SecKey) (hkeys : ∀ k ∈ keys, KeyOk k) (w : Nat)
    (secrets : List CardSecret) (hs : ∀ cs ∈ secrets, SecretOk keys w cs) :
    ∀ c, CardOk keys w c →
      ∃ c', secrets.foldlM (fun c cs => maskCard (keys.map (·.pub)) c cs) c = .ok c' ∧
        CardOk keys w c' ∧ ∀ j, j < w → colXor keys c' j = colXor keys c j := by
  induction secrets with
  | nil => intro c hc; exact ⟨c, rfl, hc, fun _ _ => rfl⟩
  | cons cs rest ih =>
    intro c hc
    have hcs := hs cs (by simp)
    obtain ⟨h1, h2⟩ := maskedZ_step keys hkeys w c cs hc hcs
    obtain ⟨c', e, ok', hx⟩ := ih (fun x hx => hs x (by simp [hx])) _ h1
    refine ⟨c', ?_, ok', fun j hj => (hx j hj).trans (h2 j hj)⟩
    rw [List.foldlM_cons, maskCard_ok keys w c cs hc hcs]
    exact e

/-! ### recomposing the type -/

theorem foldl_bits (g : Nat → Bool) (T : Nat) : ∀ w,
    (∀ j, j < w → g j = decide ((T / 2 ^ j) % 2 = 1)) →
    (List.range w).foldl (fun acc j => if g j then acc + 2 ^ j else acc) 0 = T % 2 ^ w := by
  intro w
  induction w with
  | zero => intro _; simp [Nat.mod_one]
  | succ w ih =>
    intro h
    rw [List.range_succ, List.foldl_append, ih (fun j hj => h j (by omega)), List.foldl_cons,
      List.foldl_nil, h w (by omega), Nat.mod_pow_succ]
    have : T / 2 ^ w % 2 = 0 ∨ T / 2 ^ w % 2 = 1 := by omega
    rcases this with h0 | h1
    · simp [h0]
    · simp [h1]

theorem openCard_eq (keys : List SecKey) (w T : Nat) (hT : T < 2 ^ w) (c : Card)
    (hc : CardOk keys w c)
    (hx : ∀ j, j < w → colXor keys c j = decide ((T / 2 ^ j) % 2 = 1)) :
    openCard c keys w = T := by
  unfold openCard typeOfBits
  rw [foldl_bits _ T w, Nat.mod_eq_of_lt hT]
  intro j hj
  rw [← hx j hj, colXor, List.map_map]
  congr 1
  apply List.map_congr_left
  intro i hi
  have hi' := List.mem_range.mp hi
  have hlen : j < (c.z.getD i []).length := by
    rw [hc.cols _ (getD_mem c.z i [] (by rw [hc.rows]; exact hi'))]; exact hj
  simp only [Function.comp, kAt_getElem? keys i hi', selfBits, bitOf, entry]
  have : ((c.z.getD i []).map fun z =>
      if qrmn z (kAt keys i).p (kAt keys i).q then (0 : Int) else 1).getD j 0 =
      if qrmn ((c.z.getD i []).getD j 0) (kAt keys i).p (kAt keys i).q then (0 : Int) else 1 :=
    getD_map' _ _ _ _ _ hlen
  rw [this]
  cases qrmn ((c.z.getD i []).getD j 0) (kAt keys i).p (kAt keys i).q <;> simp [lowBit]

/-! ### the open card -/

theorem jacobi_one (n : Nat) (hn : n % 2 = 1) : jacobi 1 n = 1 := by
  rw [jacobi_eq_jacobiSym _ _ hn, jacobiSym.one_left]

theorem KeyOk.p_odd' {k : SecKey} (hk : KeyOk k) : k.p.natAbs % 2 = 1 := by
  have := hk.p_odd; omega

theorem KeyOk.q_odd' {k : SecKey} (hk : KeyOk k) : k.q.natAbs % 2 = 1 := by
  have := hk.q_odd; omega

theorem KeyOk.gcd_y {k : SecKey} (hk : KeyOk k) : Int.gcd k.pub.y k.pub.m = 1 := by
  have hpc : ((k.p.natAbs : Nat) : Int) = k.p := Int.natAbs_of_nonneg (le_of_lt hk.p_pos)
  have hqc : ((k.q.natAbs : Nat) : Int) = k.q := Int.natAbs_of_nonneg (le_of_lt hk.q_pos)
  have hyp := hk.y_nqr_p
  have hyq := hk.y_nqr_q
  rw [jacobi_eq_jacobiSym _ _ hk.p_odd'] at hyp
  rw [jacobi_eq_jacobiSym _ _ hk.q_odd'] at hyq
  rw [hk.m_eq]
  apply gcd_mul_of_gcd
  · rw [← hpc]
    by_contra hc
    have := (jacobiSym.eq_zero_iff (a := k.pub.y) (b := k.p.natAbs)).mpr
      ⟨by have := hk.p_odd'; omega, hc⟩
    omega
  · rw [← hqc]
    by_contra hc
    have := (jacobiSym.eq_zero_iff (a := k.pub.y) (b := k.q.natAbs)).mpr
      ⟨by have := hk.q_odd'; omega, hc⟩
    omega

theorem createOpenCard_ok (keys : List SecKey) (hne : keys ≠ []) (hkeys : ∀ k ∈ keys, KeyOk k)
    (w T : Nat) :
    CardOk keys w (createOpenCard (keys.map (·.pub)) w T) ∧
      ∀ j, j < w → colXor keys (createOpenCard (keys.map (·.pub)) w T) j =
        decide ((T / 2 ^ j) % 2 = 1) := by
  obtain ⟨k0, rest, rfl⟩ := List.exists_cons_of_ne_nil hne
  have hk0 := hkeys k0 (by simp)
  have e0 : ∀ j, j < w → entry (createOpenCard ((k0 :: rest).map (·.pub)) w T) 0 j =
      if (T / 2 ^ j) % 2 = 1 then k0.pub.y else 1 := by
    intro j hj
    simp only [entry, createOpenCard, List.map_cons]
    rw [List.getD_cons_zero, getD_map_range _ _ _ _ hj]
  have e1 : ∀ i, i + 1 < (k0 :: rest).length → ∀ j, j < w →
      entry (createOpenCard ((k0 :: rest).map (·.pub)) w T) (i + 1) j = 1 := by
    intro i hi j hj
    simp only [List.length_cons, Nat.add_lt_add_iff_right] at hi
    simp only [entry, createOpenCard, List.map_cons, List.getD_cons_succ, List.map_map]
    simp [List.getD, hi, hj]
  have hk00 : kAt (k0 :: rest) 0 = k0 := rfl
  refine ⟨⟨?_, ?_, ?_⟩, ?_⟩
  · simp [createOpenCard]
  · intro row hrow
    simp only [createOpenCard, List.map_cons, List.mem_cons, List.mem_map] at hrow
    rcases hrow with rfl | ⟨_, _, rfl⟩ <;> simp
  · intro i hi j hj
    cases i with
    | zero =>
      rw [e0 j hj, hk00]
      by_cases hb : (T / 2 ^ j) % 2 = 1
      · simp only [hb, if_true]
        exact ⟨hk0.gcd_y, by rw [hk0.y_nqr_p, hk0.y_nqr_q]⟩
      · simp only [hb, if_false]
        exact ⟨by simp, by rw [jacobi_one _ hk0.p_odd', jacobi_one _ hk0.q_odd']⟩
    | succ i =>
      rw [e1 i hi j hj]
      have hk := hkeys _ (kAt_mem _ _ hi)
      exact ⟨by simp, by rw [jacobi_one _ hk.p_odd', jacobi_one _ hk.q_odd']⟩
  · intro j hj
    unfold colXor
    have : (List.range (k0 :: rest).length).map
        (bitOf (k0 :: rest) (createOpenCard ((k0 :: rest).map (·.pub)) w T) j) =
        (List.range (k0 :: rest).length).map fun i =>
          if i = 0 then decide ((T / 2 ^ j) % 2 = 1) else false := by
      apply List.map_congr_left
      intro i hi
      have hi' := List.mem_range.mp hi
      cases i with
      | zero =>
        simp only [bitOf, if_true]
        rw [e0 j hj, hk00]
        unfold qrmn
        by_cases hb : (T / 2 ^ j) % 2 = 1
        · simp only [hb, if_true]
          rw [hk0.y_nqr_p, hk0.y_nqr_q]; simp
        · simp only [hb, if_false]
          rw [jacobi_one _ hk0.p_odd', jacobi_one _ hk0.q_odd']; simp
      | succ i =>
        have hk := hkeys _ (kAt_mem _ _ hi')
        simp only [bitOf]
        rw [e1 i hi' j hj]
        unfold qrmn
        rw [jacobi_one _ hk.p_odd', jacobi_one _ hk.q_odd']; simp
    rw [this, xorBits_map_single]
    simp

/-- **C01**, second encoding: for any number of players, type bits, type, and any chain of
    maskings with fitting secrets, opening with everybody's bits returns the type -/
theorem tmcg_open_correct (keys : List SecKey) (hne : keys ≠ []) (hkeys : ∀ k ∈ keys, KeyOk k)
    (w T : Nat) (hT : T < 2 ^ w) (secrets : List CardSecret)
    (hs : ∀ cs ∈ secrets, SecretOk keys w cs) :
    ∃ c, secrets.foldlM (fun c cs => maskCard (keys.map (·.pub)) c cs)
        (createOpenCard (keys.map (·.pub)) w T) = .ok c ∧
      openCard c keys w = T := by
  obtain ⟨h0, hx0⟩ := createOpenCard_ok keys hne hkeys w T
  obtain ⟨c, e, hc, hx⟩ := foldlM_maskCard keys hkeys w secrets hs _ h0
  exact ⟨c, e, openCard_eq keys w T hT c hc fun j hj => (hx j hj).trans (hx0 j hj)⟩
end Tmcg.TmcgOpen
