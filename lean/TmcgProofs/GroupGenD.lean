import TmcgProofs.GroupGen
/-
  C06, first clause — BarnettSmartVTMF_dlog, its common key and the classes fed from it; the Pedersen-type
  classes; BarnettSmartVTMF_dlog_GroupQR is in TmcgProofs/GroupGenQR.lean.
-/
namespace Tmcg.GroupGenProofs
open Tmcg Tmcg.Rabin Tmcg.RabinGen Tmcg.PrimeGen Tmcg.GroupCheck Tmcg.GroupGen Tmcg.PrimeGenProofs

/-- what every `lprime`-based constructor starts from -/
structure LPrefix (isPrime : Oracle) (fsize gsize : Nat) (p q k : Nat) : Prop where
  pre : PrefixOk fsize gsize (primeOf isPrime) (p : Int) (q : Int) (k : Int)
  fdiv : Int.fdiv ((p : Int) - 1) (q : Int) = (k : Int)
  e : p = q * k + 1
  qodd : q % 2 = 1
  kpos : 0 < k
  qpos : 0 < q
  pbig : 2 < p

theorem lprime_prefix (isPrime : Oracle) (fsize gsize fuel : Nat) (coins : Coins) (p q k : Nat) (rest : Coins)
    (hpr : PrimeOracleOk (primeOf isPrime))
    (h : lprime isPrime fsize gsize MR fuel coins = .ok ((p, q, k), rest)) :
    LPrefix isPrime fsize gsize p q k := by
  obtain ⟨-, e, hg, hev, hk0, hbp, hbq, hoq, hop⟩ := lprime_spec isPrime fsize gsize MR fuel coins p q k rest h
  have hq1 : (1 : Int) < q := hpr _ hoq
  have hq1' : 1 < q := by exact_mod_cast hq1
  have hqodd : q % 2 = 1 := by
    by_contra hne
    have h2q : 2 ∣ q := by omega
    have h2k : 2 ∣ k := by omega
    have := Nat.dvd_gcd h2k h2q
    rw [hg] at this
    omega
  have hk2 : 2 ≤ k := by omega
  have hpb : 2 < p := by
    rw [e]
    have : 2 * 2 ≤ q * k := Nat.mul_le_mul (by omega) hk2
    omega
  refine ⟨⟨hbp, hbq, by omega, by rw [e]; push_cast; ring, hop, hoq, ?_⟩, ?_, e, hqodd, hk0, by omega, hpb⟩
  · rw [Int.gcd_natCast_natCast, Nat.gcd_comm]; exact hg
  · rw [e]; push_cast
    rw [show ((q : Int) * k + 1 - 1) = (q : Int) * k by ring, Int.fdiv_eq_ediv_of_nonneg _ (by omega)]
    exact Int.mul_ediv_cancel_left _ (by omega)

theorem genOk_checkElement (x p q : Int) (hp : 2 < p) (hq : 0 < q) (h : GenOk x p q) :
    checkElement false p q x = .ok true :=
  (GroupCheck.checkElement_iff p q x (by omega) hq).mpr ⟨by have := h.1; omega, by have := h.2.1; omega, h.2.2⟩

/-! ### BarnettSmartVTMF_dlog -/

/-- the generated group and generator, both modes of `canonical_g` -/
theorem vtmfGen_spec (isPrime : Oracle) (H : Hash) (canonical : Bool) (fsize gsize fuel : Nat) (coins : Coins)
    (P : Params) (rest : Coins)
    (hpr : PrimeOracleOk (primeOf isPrime))
    (hsound : canonical = false → primeOf isPrime P.p = true → P.p.natAbs.Prime)
    (h : vtmfGen isPrime H canonical fsize gsize fuel coins = .ok (P, rest)) :
    ∃ p q k : Nat, P.p = p ∧ P.q = q ∧ P.k = k ∧ LPrefix isPrime fsize gsize p q k ∧ GenOk P.g P.p P.q ∧
      (canonical = true → ggen H P.p P.q P.k fuel (ggenStart P.p P.q) = .ok P.g) := by
  unfold vtmfGen at h
  cases hl : lprime isPrime fsize gsize MR fuel coins with
  | error e => rw [hl] at h; simp at h
  | ok v =>
    obtain ⟨⟨p, q, k⟩, rest0⟩ := v
    rw [hl] at h
    simp only at h
    have L := lprime_prefix isPrime fsize gsize fuel coins p q k rest0 hpr hl
    have hp0 : (0 : Int) < p := by have := L.pbig; omega
    have hq0 : (0 : Int) < q := by have := L.qpos; omega
    cases canonical with
    | true =>
      simp only [if_true] at h
      cases hg : ggen H (p : Int) (q : Int) (k : Int) fuel (ggenStart (p : Int) (q : Int)) with
      | error e => rw [hg] at h; simp at h
      | ok g =>
        rw [hg] at h
        simp only [Except.ok.injEq, Prod.mk.injEq] at h
        obtain ⟨rfl, -⟩ := h
        exact ⟨p, q, k, rfl, rfl, rfl, L, ggen_genOk H _ _ _ hp0 hq0 (by omega) fuel _ g hg, fun _ => hg⟩
    | false =>
      simp only [Bool.false_eq_true, if_false] at h
      cases hg : randElem (p : Int) (k : Int) fuel rest0 with
      | error e => rw [hg] at h; simp at h
      | ok w =>
        obtain ⟨g, rest1⟩ := w
        rw [hg] at h
        simp only [Except.ok.injEq, Prod.mk.injEq] at h
        obtain ⟨rfl, -⟩ := h
        have hpP : p.Prime := by
          have := hsound rfl L.pre.2.2.2.2.1
          simpa using this
        exact ⟨p, q, k, rfl, rfl, rfl, L, randElem_genOk p q k hpP L.e fuel rest0 g rest1 hg, fun hc => by cases hc⟩

/-- BarnettSmartVTMF_dlog(fieldsize, subgroupsize, canonical_g): the generated set passes the class's CheckGroup,
    and `g` passes CheckElement.  For the random generator the oracle has to be right about `p` (Fermat). -/
theorem vtmfGen_passes (isPrime : Oracle) (H : Hash) (canonical : Bool) (fsize gsize fuel : Nat) (coins : Coins)
    (P : Params) (rest : Coins)
    (hpr : PrimeOracleOk (primeOf isPrime))
    (hsound : canonical = false → primeOf isPrime P.p = true → P.p.natAbs.Prime)
    (h : vtmfGen isPrime H canonical fsize gsize fuel coins = .ok (P, rest)) :
    checkGroup (.D canonical) fsize gsize (primeOf isPrime) H fuel P = .ok true ∧
      checkElement false P.p P.q P.g = .ok true := by
  obtain ⟨p, q, k, ep, eq, ek, L, hg, hcan⟩ := vtmfGen_spec isPrime H canonical fsize gsize fuel coins P rest hpr hsound h
  have hpre : PrefixOk fsize gsize (primeOf isPrime) P.p P.q P.k := by rw [ep, eq, ek]; exact L.pre
  refine ⟨?_, genOk_checkElement _ _ _ (by rw [ep]; have := L.pbig; omega) (by rw [eq]; have := L.qpos; omega) hg⟩
  cases canonical with
  | true => exact (GroupCheck.checkGroup_D_canonical_iff fsize gsize _ H fuel hpr P).mpr ⟨hpre, hg, hcan rfl⟩
  | false => exact (GroupCheck.checkGroup_D_iff fsize gsize _ H fuel hpr P).mpr ⟨hpre, hg⟩

/-! ### the common key and the classes that copy `(p, q, g, h)` -/

theorem vtmfKey_spec (P P' : Params) (x : Int) (coins rest : Coins) (hp : 0 < P.p) (hq : 0 < P.q)
    (h : vtmfKey P coins = .ok ((P', x), rest)) :
    0 ≤ x ∧ x < P.q ∧ P' = { P with h := P.g ^ x.toNat % P.p } := by
  unfold vtmfKey at h
  cases hd : drawMod P.q coins with
  | error e => rw [hd] at h; simp at h
  | ok v =>
    obtain ⟨x0, rest0⟩ := v
    rw [hd] at h
    obtain ⟨h0, h1⟩ := drawMod_spec P.q coins x0 rest0 hd hq
    simp only [Powm.mpzPowm_nonneg_eq P.g x0 P.p hp h0, Except.ok.injEq, Prod.mk.injEq] at h
    obtain ⟨⟨rfl, rfl⟩, -⟩ := h
    exact ⟨h0, h1, rfl⟩

/-- a power of an accepted generator is an accepted generator unless it is 1 -/
theorem pow_genOk (g p q : Int) (hp : 2 < p) (hq : 0 < q) (hodd : q % 2 = 1) (hg : GenOk g p q) (x : Nat)
    (h1 : g ^ x % p ≠ 1) : GenOk (g ^ x % p) p q :=
  genOk_of_order _ p q hp hq hodd (Int.emod_nonneg _ (by omega)) (Int.emod_lt_of_pos _ (by omega)) h1
    (pow_order g p (by omega) q.natAbs x hg.2.2)

theorem genOk_ne_one (x p q : Int) (h : GenOk x p q) : x ≠ 1 := by have := h.1; omega

/-- the classes with two generators `g`, `h = g^x`: the second one is accepted iff it is neither 1 nor `g` -/
theorem two_gen_iff (g p q : Int) (hp : 2 < p) (hq : 0 < q) (hodd : q % 2 = 1) (hg : GenOk g p q) (x : Nat) :
    (GenOk (g ^ x % p) p q ∧ g ≠ g ^ x % p) ↔ (g ^ x % p ≠ 1 ∧ g ^ x % p ≠ g) := by
  constructor
  · rintro ⟨h1, h2⟩; exact ⟨genOk_ne_one _ _ _ h1, fun e => h2 e.symm⟩
  · rintro ⟨h1, h2⟩; exact ⟨pow_genOk g p q hp hq hodd hg x h1, fun e => h2 e.symm⟩

/-- BarnettSmartVTMF_dlog → PedersenVSS, GennaroJareckiKrawczykRabinDKG/NTS, CanettiGennaroJareckiKrawczykRabinRVSS/ZVSS/
    DKG/DSS, JareckiLysyanskayaRVSS/EDCF, HooghSchoenmakersSkoricVillegasVRHE(p, q, g, h): the group of a generated VTMF
    instance with its common key `h = g^x` passes the consuming class's CheckGroup iff `h ∉ {1, g}` (i.e. `x ∉ {0, 1}`);
    the classes that verify the canonical generator need a VTMF instance generated with `canonical_g = true` -/
theorem vtmf_consumers_iff (isPrime : Oracle) (H : Hash) (canonical : Bool) (fsize gsize fuel : Nat) (coins : Coins)
    (P P' : Params) (x : Int) (rest rest' : Coins) (cls : Cls)
    (hcls : cls = .G ∨ cls = .R false ∨ (canonical = true ∧ (cls = .PVSS ∨ cls = .R true)))
    (hpr : PrimeOracleOk (primeOf isPrime))
    (hsound : canonical = false → primeOf isPrime P.p = true → P.p.natAbs.Prime)
    (hgen : vtmfGen isPrime H canonical fsize gsize fuel coins = .ok (P, rest))
    (hkey : vtmfKey P rest = .ok ((P', x), rest')) :
    (checkGroup cls fsize gsize (primeOf isPrime) H fuel (consume P') = .ok true ↔ (P'.h ≠ 1 ∧ P'.h ≠ P'.g)) ∧
      checkElement false P'.p P'.q P'.g = .ok true ∧
      (P'.h ≠ 1 → checkElement false P'.p P'.q P'.h = .ok true) := by
  obtain ⟨p, q, k, ep, eq, ek, L, hg, hcan⟩ := vtmfGen_spec isPrime H canonical fsize gsize fuel coins P rest hpr hsound hgen
  have hp2 : (2 : Int) < P.p := by rw [ep]; have := L.pbig; omega
  have hq0 : (0 : Int) < P.q := by rw [eq]; have := L.qpos; omega
  have hodd : P.q % 2 = 1 := by rw [eq]; have := L.qodd; omega
  obtain ⟨hx0, -, rfl⟩ := vtmfKey_spec P P' x rest rest' (by omega) hq0 hkey
  have hfd : Int.fdiv (P.p - 1) P.q = P.k := by rw [ep, eq, ek]; exact L.fdiv
  have hpre : PrefixOk fsize gsize (primeOf isPrime) P.p P.q (Int.fdiv (P.p - 1) P.q) := by
    rw [hfd, ep, eq, ek]; exact L.pre
  have key := two_gen_iff P.g P.p P.q hp2 hq0 hodd hg x.toNat
  refine ⟨?_, genOk_checkElement _ _ _ hp2 hq0 hg, fun h1 => genOk_checkElement _ _ _ hp2 hq0 (pow_genOk _ _ _ hp2 hq0 hodd hg _ h1)⟩
  show checkGroup cls fsize gsize (primeOf isPrime) H fuel (consume { P with h := P.g ^ x.toNat % P.p }) = .ok true ↔
    (P.g ^ x.toNat % P.p ≠ 1 ∧ P.g ^ x.toNat % P.p ≠ P.g)
  rw [← key]
  rcases hcls with hc | hc | ⟨hcn, hc⟩
  · rw [GroupCheck.checkGroup_G_iff fsize gsize _ H fuel hpr _ cls (.inl hc)]
    simp only [consume]
    constructor
    · rintro ⟨-, h1, -, h3⟩; exact ⟨h1, h3⟩
    · rintro ⟨h1, h3⟩; exact ⟨hpre, h1, hg, h3⟩
  · rw [GroupCheck.checkGroup_G_iff fsize gsize _ H fuel hpr _ cls (.inr hc)]
    simp only [consume]
    constructor
    · rintro ⟨-, h1, -, h3⟩; exact ⟨h1, h3⟩
    · rintro ⟨h1, h3⟩; exact ⟨hpre, h1, hg, h3⟩
  · rw [GroupCheck.checkGroup_R_canonical_iff fsize gsize _ H fuel hpr _ cls hc]
    simp only [consume]
    constructor
    · rintro ⟨-, h1, -, h3, -⟩; exact ⟨h1, h3⟩
    · rintro ⟨h1, h3⟩; exact ⟨hpre, h1, hg, h3, by rw [hfd]; exact hcan hcn⟩

/-- BarnettSmartVTMF_dlog → NaorPinkasEOTP(p, q, g): always accepted -/
theorem vtmf_eotp_passes (isPrime : Oracle) (H : Hash) (canonical : Bool) (fsize gsize fuel : Nat) (coins : Coins)
    (P : Params) (rest : Coins)
    (hpr : PrimeOracleOk (primeOf isPrime))
    (hsound : canonical = false → primeOf isPrime P.p = true → P.p.natAbs.Prime)
    (hgen : vtmfGen isPrime H canonical fsize gsize fuel coins = .ok (P, rest)) :
    checkGroup .NP fsize gsize (primeOf isPrime) H fuel (consume P) = .ok true := by
  obtain ⟨p, q, k, ep, eq, ek, L, hg, -⟩ := vtmfGen_spec isPrime H canonical fsize gsize fuel coins P rest hpr hsound hgen
  have hfd : Int.fdiv (P.p - 1) P.q = P.k := by rw [ep, eq, ek]; exact L.fdiv
  rw [GroupCheck.checkGroup_NP_iff fsize gsize _ H fuel hpr]
  simp only [consume]
  exact ⟨by rw [hfd, ep, eq, ek]; exact L.pre, hg⟩

/-! ### PedersenTrapdoorCommitmentScheme -/

theorem ptFrom_iff (fsize gsize fuel : Nat) (prime : Int → Bool) (H : Hash) (hpr : PrimeOracleOk prime)
    (p q k g : Int) (coins rest : Coins) (P : Params) (sigma : Int)
    (hpre : PrefixOk fsize gsize prime p q k) (hp : 2 < p) (hodd : q % 2 = 1) (hg : GenOk g p q)
    (h : ptFrom p q k g coins = .ok ((P, sigma), rest)) :
    (checkGroup .PT fsize gsize prime H fuel P = .ok true ↔ (P.h ≠ 1 ∧ P.h ≠ P.g)) ∧
      P.p = p ∧ P.q = q ∧ P.g = g ∧ (P.h ≠ 1 → GenOk P.h p q) := by
  have hq : 0 < q := hpre.2.2.1
  unfold ptFrom at h
  cases hd : drawMod q coins with
  | error e => rw [hd] at h; simp at h
  | ok v =>
    obtain ⟨x0, rest0⟩ := v
    rw [hd] at h
    obtain ⟨h0, h1⟩ := drawMod_spec q coins x0 rest0 hd hq
    simp only [Powm.mpzPowm_nonneg_eq g x0 p (by omega) h0, Except.ok.injEq, Prod.mk.injEq] at h
    obtain ⟨⟨rfl, rfl⟩, -⟩ := h
    refine ⟨?_, rfl, rfl, rfl, fun h1 => pow_genOk g p q hp hq hodd hg _ h1⟩
    rw [GroupCheck.checkGroup_PT_iff fsize gsize _ H fuel hpr]
    simp only
    rw [← two_gen_iff g p q hp hq hodd hg x0.toNat]
    constructor
    · rintro ⟨-, -, h2, h3⟩; exact ⟨h2, h3⟩
    · rintro ⟨h2, h3⟩; exact ⟨hpre, hg, h2, h3⟩

/-- PedersenTrapdoorCommitmentScheme(fieldsize, subgroupsize): accepted iff the trapdoor is not 0 or 1 -/
theorem ptGen_iff (isPrime : Oracle) (H : Hash) (fsize gsize fuel : Nat) (coins : Coins)
    (P : Params) (sigma : Int) (rest : Coins)
    (hpr : PrimeOracleOk (primeOf isPrime))
    (hsound : primeOf isPrime P.p = true → P.p.natAbs.Prime)
    (h : ptGen isPrime fsize gsize fuel coins = .ok ((P, sigma), rest)) :
    (checkGroup .PT fsize gsize (primeOf isPrime) H fuel P = .ok true ↔ (P.h ≠ 1 ∧ P.h ≠ P.g)) ∧
      checkElement false P.p P.q P.g = .ok true ∧ (P.h ≠ 1 → checkElement false P.p P.q P.h = .ok true) := by
  unfold ptGen at h
  cases hl : lprime isPrime fsize gsize MR fuel coins with
  | error e => rw [hl] at h; simp at h
  | ok v =>
    obtain ⟨⟨p, q, k⟩, rest0⟩ := v
    rw [hl] at h
    simp only at h
    have L := lprime_prefix isPrime fsize gsize fuel coins p q k rest0 hpr hl
    cases hg : randElem (p : Int) (k : Int) fuel rest0 with
    | error e => rw [hg] at h; simp at h
    | ok w =>
      obtain ⟨g, rest1⟩ := w
      rw [hg] at h
      simp only at h
      have hp2 : (2 : Int) < p := by have := L.pbig; omega
      have hq0 : (0 : Int) < q := by have := L.qpos; omega
      -- the parameters carry p: first extract the shape without primality
      have shape : P.p = p := by
        unfold ptFrom at h
        cases hd : drawMod (q : Int) rest1 with
        | error e => rw [hd] at h; simp at h
        | ok v2 =>
          obtain ⟨x0, r0⟩ := v2
          rw [hd] at h
          obtain ⟨h0, -⟩ := drawMod_spec _ _ _ _ hd hq0
          simp only [Powm.mpzPowm_nonneg_eq g x0 p (by omega) h0, Except.ok.injEq, Prod.mk.injEq] at h
          rw [← h.1.1]
      have hpP : p.Prime := by
        have := hsound (by rw [shape]; exact L.pre.2.2.2.2.1)
        rw [shape] at this; simpa using this
      have hgOk := randElem_genOk p q k hpP L.e fuel rest0 g rest1 hg
      obtain ⟨hiff, ep, eq, eg, hh⟩ := ptFrom_iff fsize gsize fuel _ H hpr p q k g rest1 rest P sigma L.pre hp2
        (by have := L.qodd; omega) hgOk h
      rw [ep, eq, eg]
      exact ⟨by rw [← eg]; exact hiff, genOk_checkElement _ _ _ hp2 hq0 hgOk, fun h1 => genOk_checkElement _ _ _ hp2 hq0 (hh h1)⟩

end Tmcg.GroupGenProofs
