import TmcgProofs.DkgKeySim2
/-
  C15, key agreement with reconstruction, part 3: consequences of the binding hypothesis for the
  shares held after round 3, and the state of the honest parties after round 4 (step 4(b)).
-/
namespace Tmcg.DkgP
open Tmcg Tmcg.Powm Tmcg.Dkg Tmcg.Grp Tmcg.DkgL

variable {G : Dkg.Grp} [Fact (Nat.Prime G.p.natAbs)]

set_option linter.unusedSectionVars false

/-! ### the commitments `C` are not touched after round 1 (here: from round 3 on) -/

theorem kg_genFinish_C (st st' : GenSt) (h : genFinish G st = .ok st') : st'.C = st.C := by
  unfold genFinish at h
  obtain ⟨A, -, h⟩ := ag_bind_ok _ _ _ h
  obtain ⟨vi, -, h⟩ := ag_bind_ok _ _ _ h
  injection h with h
  rw [← h]

theorem kg_genRecNext_C (st st' : GenSt) (ops : List Op) (s : Status)
    (h : genRecNext G st = .ok (st', ops, s)) : st'.C = st.C := by
  rcases ra_genRecNext_shape _ _ _ _ h with ⟨-, h1, -⟩ | ⟨-, h1, -⟩
  · exact kg_genFinish_C _ _ h1
  · rw [h1]

theorem kg_genRecStep_C (st st' : GenSt) (I I' : Inbox) (ops : List Op) (s : Status)
    (h : genRecStep G st I = .ok (st', I', ops, s)) : st'.C = st.C := by
  unfold genRecStep at h
  split at h
  · injection h with h
    injection h with h
    rw [← h]
  · obtain ⟨⟨I1, parties, shares⟩, -, h⟩ := ag_bind_ok _ _ _ h
    simp only at h
    split at h
    · injection h with h
      injection h with h
      rw [← h]
    · split at h
      · injection h with h
        injection h with h
        rw [← h]
      · split at h
        · injection h with h
          injection h with h
          rw [← h]
        · obtain ⟨⟨st3, ops3, s3⟩, h1, h⟩ := ag_bind_ok _ _ _ h
          injection h with h
          injection h with h
          rw [← h]
          exact (kg_genRecNext_C _ _ _ _ h1).trans rfl

theorem kg_genExtractCollect_C (st st' : GenSt) (I I' : Inbox) (ops : List Op) (s : Status)
    (h : genExtractCollect G st I = .ok (st', I', ops, s)) : st'.C = st.C := by
  unfold genExtractCollect at h
  obtain ⟨⟨I1, cm⟩, -, h⟩ := ag_bind_ok _ _ _ h
  simp only at h
  split at h
  · injection h with h
    injection h with h
    rw [← h]
  · obtain ⟨⟨st2, ops2, s2⟩, h1, h⟩ := ag_bind_ok _ _ _ h
    injection h with h
    injection h with h
    rw [← h]
    exact (kg_genRecNext_C _ _ _ _ h1).trans rfl

theorem kg_genStep_C (ins : List PartyIn) (n t k i : Nat) (hk : 4 ≤ k) (st st' : GenSt) (I I' : Inbox)
    (ops : List Op) (s : Status) (h : genStep G ins n t k i st I = .ok (st', I', ops, s)) : st'.C = st.C := by
  unfold genStep at h
  match k, hk with
  | 4, _ =>
    obtain ⟨_, _, _, _, h1, _⟩ := ra_genExtractCheck_shape _ _ _ _ _ _ h
    rw [h1]
  | 5, _ => exact kg_genExtractCollect_C _ _ _ _ _ _ h
  | k + 6, _ => exact kg_genRecStep_C _ _ _ _ _ _ h

theorem cfgGen_add (n t : Nat) (ins : List PartyIn) (r m : Nat) :
    cfgGen G n t ins (r + m) = runRounds (genStep G ins n t) (List.range' r m) (cfgGen G n t ins r) := by
  induction m with
  | zero => rfl
  | succ m ih =>
    rw [← Nat.add_assoc, cfgGen_succ, ih, List.range'_concat, ag_runRounds_append]
    simp [runRounds]

theorem kg_C_final (n t : Nat) (ins : List PartyIn) (i : Nat) (m : Nat) :
    ((cfgGen G n t ins (4 + m))[i]?).map (fun P => P.st.C) = ((cfgGen G n t ins 4)[i]?).map (fun P => P.st.C) := by
  rw [cfgGen_add]
  generalize cfgGen G n t ins 4 = R
  have : ∀ (L : List Nat), (∀ k ∈ L, 4 ≤ k) → ∀ R : List (Party GenSt),
      ((runRounds (genStep G ins n t) L R)[i]?).map (fun P => P.st.C) = (R[i]?).map (fun P => P.st.C) := by
    intro L
    induction L with
    | nil => intro _ R; rfl
    | cons k L ih =>
      intro hL R
      simp only [runRounds]
      rw [ih (fun k hk => hL k (List.mem_cons_of_mem _ hk))]
      exact ra_runRound_field (fun st => st.C) _
        (fun i st I st' I' ops s h => kg_genStep_C ins n t k i (hL k (by simp)) _ _ _ _ _ _ h) R i
  exact this _ (fun k hk => (List.mem_range'_1.mp hk).1) R

/-! ### consequences of the binding hypothesis -/

theorem kg_getI_mem (l : List Int) (j : Nat) (hj : j < l.length) : getI l j ∈ l := by
  unfold getI
  rw [List.getD_eq_getElem _ _ hj]
  exact List.getElem_mem hj

theorem kg_goodParties_range {n : Nat} (hnq : (n : Int) < G.q) (L : List Nat) (hnd : L.Nodup)
    (hL : ∀ j ∈ L, j < n) : GoodParties G.q L :=
  ⟨hnd, fun j hj => by have := hL j hj; omega⟩

/-- the binding hypothesis for the common commitment rows; honest dealers' polynomials -/
theorem kg_bind {n t : Nat} {ins : List PartyIn} (S : SetupK G n t ins)
    (fam : Nat → Polynomial (ZMod G.q.natAbs)) (hB : BindingHypG G n t ins fam)
    (Q : List Nat) (Cc : Nat → List Int) (k4 : K4 G n t ins Q Cc (cfgGen G n t ins 4)) :
    (∀ j, j < n → BindsRunG G n t ins (Cc j) (fam j)) ∧
    (∀ j, j ∈ honestIdx ins → fam j = polyOf ((coefA t (pinOf ins j)).map (cq G))) := by
  have hG := S.hG
  have hq : 0 < G.q := hG.vg.q_pos
  have : Fact (Nat.Prime G.q.natAbs) := fact_q hG
  obtain ⟨hHl, hHnd, hHlt⟩ := kg_honest_nonempty S
  obtain ⟨i0, hi0⟩ : ∃ i0, i0 ∈ honestIdx ins := by
    cases hH : honestIdx ins with
    | nil => rw [hH] at hHl; simp at hHl
    | cons a l => exact ⟨a, by simp⟩
  have hbind : ∀ j, j < n → BindsRunG G n t ins (Cc j) (fam j) := by
    intro j hj
    obtain ⟨P4, hP4, t4, -⟩ := k4.party i0 hi0
    have hfin := kg_C_final (G := G) n t ins i0 (t + 3)
    rw [hP4] at hfin
    have hrun : runGen G n t ins = cfgGen G n t ins (4 + (t + 3)) := by
      rw [cfgGen_final, show 6 + t + 1 = 4 + (t + 3) by omega]
    rw [← hrun] at hfin
    simp only [Option.map_some, Option.map_eq_some_iff] at hfin
    obtain ⟨Pf, hPf, hC⟩ := hfin
    have := hB i0 hi0 Pf hPf j hj
    rw [hC, t4.C j hj] at this
    exact this
  refine ⟨hbind, ?_⟩
  intro j hj
  have hj1 := hHlt j hj
  obtain ⟨hdeg, hb⟩ := hbind j hj1
  obtain ⟨ha, hb', hla, hlb⟩ := ag_coef_range (G := G) t (pinOf ins j) (S.hc j hj)
  obtain ⟨-, hS1, -⟩ := kg_cfg1 S
  obtain ⟨P1, hP1, s1⟩ := hS1 j hj
  have hocc := occAt_cfg (G := G) n t ins 1 j P1 hP1 hj
  apply poly_eq_of_points hq t (fam j) _ hdeg
    (by have := polyOf_degree_lt ((coefA t (pinOf ins j)).map (cq G)); simpa [hla] using this)
    (List.range n) (kg_goodParties_range S.hnq _ List.nodup_range (fun m hm => List.mem_range.mp hm))
    (by have := S.ht; simp; omega)
  intro m hm
  have hm1 : m < n := List.mem_range.mp hm
  rw [k4.ch j hj] at hb
  have e := hb m hm1 (shA G t (pinOf ins j) m) (shB G t (pinOf ins j) m)
    (hocc _ (Or.inr (Or.inr (Or.inl (by rw [s1.dealt.srow]; exact List.mem_map.mpr ⟨m, hm, rfl⟩)))))
    (hocc _ (Or.inr (Or.inr (Or.inr (Or.inl (by rw [s1.dealt.sprow]; exact List.mem_map.mpr ⟨m, hm, rfl⟩))))))
    (ag_sh_range hG t _ m).2.2.1 (ag_sh_range hG t _ m).2.2.2
    (by
      obtain ⟨ga, l, r, e1, e2, e3⟩ := share_check hG _ _ (hla.trans hlb.symm) ha hb' _
        (ag_comOf_spec hG t (pinOf ins j) (S.hc j hj)).1 (m + 1)
      exact kg_Eq4_of_S hG m _ _ _ (ag_sh_range hG t _ m).2.2.1 (ag_sh_range hG t _ m).2.2.2
        ⟨ga, l, r, e1, e2, e3⟩)
  rw [← e]
  exact evalShare_on_poly hq (coefA t (pinOf ins j)) m

/-- the shares an honest party holds after round 3 lie on the dealers' polynomials -/
theorem kg_share_on_fam {n t : Nat} {ins : List PartyIn} (S : SetupK G n t ins)
    (fam : Nat → Polynomial (ZMod G.q.natAbs)) (Q : List Nat) (Cc : Nat → List Int)
    (hbind : ∀ j, j < n → BindsRunG G n t ins (Cc j) (fam j)) (hqlt : ∀ j ∈ Q, j < n)
    (R : List (Party GenSt)) (hocc : OccAt G n t ins R) (i : Nat) (hi : i ∈ honestIdx ins) (P : Party GenSt)
    (hP : R[i]? = some P) (hs : InR G.q P.st.s) (hsp : InR G.q P.st.sp) (hsl : P.st.s.length = n)
    (hspl : P.st.sp.length = n) (hopn : ∀ j ∈ Q, Eq4 G i (Cc j) (getI P.st.s j) (getI P.st.sp j)) :
    ∀ j ∈ Q, cq G (getI P.st.s j) = (fam j).eval (pt G.q i) := by
  intro j hj
  have hj1 := hqlt j hj
  have hi1 : i < n := (kg_honest_nonempty S).2.2 i hi
  have hq : 0 < G.q := S.hG.vg.q_pos
  exact (hbind j hj1).2 i hi1 _ _
    (hocc i P hP hi _ (Or.inl (kg_getI_mem _ _ (by rw [hsl]; exact hj1))))
    (hocc i P hP hi _ (Or.inr (Or.inl (kg_getI_mem _ _ (by rw [hspl]; exact hj1)))))
    (ag_getI_InR G.q hq _ hs j) (ag_getI_InR G.q hq _ hsp j) (hopn j hj)

/-! ### step 4(b): reading the Feldman rows -/

theorem kg_reS_struct (tag : Tag) (f : Nat) (s : List (Tag × Int)) (acc : List Int) (c : Bool) :
    ∃ r, (reS G tag f s acc c).2.2 = acc ++ r ∧ r.length ≤ f ∧
      ((reS G tag f s acc c).1 = false → c = false ∧ r.length = f ∧ ∀ x ∈ r, Dkg.checkElement G x = true) ∧
      ((reS G tag f s acc c).1 = true → c = true ∨ (0 : Int) ∈ r ∨ r.length < f) := by
  induction f generalizing s acc c with
  | zero => exact ⟨[], by simp [reS], by simp, fun h => ⟨by simpa [reS] using h, rfl, by simp⟩,
      fun h => Or.inl (by simpa [reS] using h)⟩
  | succ f ih =>
    unfold reS
    rcases popS tag s with ⟨_ | v, s1⟩
    · exact ⟨[], by simp, by simp, fun h => by simp at h, fun _ => Or.inr (Or.inr (by simp))⟩
    · simp only
      cases hc : Dkg.checkElement G v
      · simp only [Bool.false_eq_true, if_false]
        obtain ⟨r, h1, h2, h3, h4⟩ := ih s1 (acc ++ [0]) true
        refine ⟨0 :: r, by rw [h1]; simp, by simp; omega, fun h => ?_, fun _ => Or.inr (Or.inl (by simp))⟩
        have := (h3 h).1
        cases this
      · simp only [if_true]
        obtain ⟨r, h1, h2, h3, h4⟩ := ih s1 (acc ++ [v]) c
        refine ⟨v :: r, by rw [h1]; simp, by simp; omega, fun h => ?_, fun h => ?_⟩
        · obtain ⟨a1, a2, a3⟩ := h3 h
          refine ⟨a1, by simp [a2], ?_⟩
          intro x hx
          rcases List.mem_cons.mp hx with e | e
          · rw [e]; exact hc
          · exact a3 x e
        · rcases h4 h with a | a | a
          · exact Or.inl a
          · exact Or.inr (Or.inl (List.mem_cons_of_mem _ a))
          · exact Or.inr (Or.inr (by simp; omega))

/-- the row read from one stream, whether it was complete and well-formed, the rest of the stream -/
def rA (G : Grp) (t : Nat) (s : List (Tag × Int)) : Bool × List (Tag × Int) × List Int :=
  reS G none (t + 1) s [] false

theorem kg_rA_good (t : Nat) (s : List (Tag × Int)) (h : (rA G t s).1 = false) :
    padRow t (rA G t s).2.2 = (rA G t s).2.2 ∧ (rA G t s).2.2.length = t + 1 ∧
    ∀ x ∈ (rA G t s).2.2, Dkg.checkElement G x = true := by
  obtain ⟨r, h1, h2, h3, -⟩ := kg_reS_struct (G := G) none (t + 1) s [] false
  obtain ⟨-, a2, a3⟩ := h3 h
  simp only [List.nil_append] at h1
  unfold rA
  rw [h1]
  exact ⟨ag_padRow_full t r a2, a2, a3⟩

theorem kg_rA_bad (t : Nat) (s : List (Tag × Int)) (h : (rA G t s).1 = true) :
    (0 : Int) ∈ padRow t (rA G t s).2.2 := by
  obtain ⟨r, h1, h2, -, h4⟩ := kg_reS_struct (G := G) none (t + 1) s [] false
  simp only [List.nil_append] at h1
  unfold rA at h ⊢
  rw [h1]
  rcases h4 h with a | a | a
  · cases a
  · exact List.mem_append_left _ a
  · apply List.mem_append_right
    simp only [zeros, List.mem_replicate]
    simp
    omega

theorem kg_padRow_length (t : Nat) (s : List (Tag × Int)) : (padRow t (rA G t s).2.2).length = t + 1 := by
  obtain ⟨r, h1, h2, -, -⟩ := kg_reS_struct (G := G) none (t + 1) s [] false
  simp only [List.nil_append] at h1
  unfold rA
  rw [h1]
  simp [padRow, zeros]
  omega

/-- whether party `st.i` complains about dealer `k` in step 4(b) -/
def cbad (G : Grp) (st : GenSt) (k : Nat) (s : List (Tag × Int)) : Prop :=
  (rA G st.t s).1 = true ∨
    ∃ rhs, commitProd G.p (st.i + 1) (padRow st.t (rA G st.t s).2.2) = .ok rhs ∧ getI st.gs k ≠ rhs

theorem kg_genReadA_spec (hG : ValidGrp G) (st : GenSt) (L : List Nat) (hL : L.Nodup) (I : Inbox)
    (hI : ∀ j ∈ L, j < I.b.length) (A : List (List Int)) (cm : List Nat) :
    ∃ I' A' cm', genReadA G st L I A cm = .ok (I', A', cm') ∧ I'.b.length = I.b.length ∧
      A'.length = A.length ∧
      (∀ k, bsOf I' k = if k ∈ L ∧ k ≠ st.i ∧ k ∈ st.qual then (rA G st.t (bsOf I k)).2.1 else bsOf I k) ∧
      (∀ k, getRow A' k = if k ∈ L ∧ k ≠ st.i ∧ k ∈ st.qual ∧ k < A.length
        then padRow st.t (rA G st.t (bsOf I k)).2.2 else getRow A k) ∧
      (∀ k, k ∈ cm' ↔ k ∈ cm ∨ (k ∈ L ∧ k ≠ st.i ∧ k ∈ st.qual ∧ cbad G st k (bsOf I k))) := by
  induction L generalizing I A cm with
  | nil => exact ⟨I, A, cm, rfl, rfl, rfl, by simp, by simp, by simp⟩
  | cons j rest ih =>
    have hnd := List.nodup_cons.mp hL
    have hIr : ∀ k ∈ rest, k < I.b.length := fun k hk => hI k (List.mem_cons_of_mem _ hk)
    unfold genReadA
    by_cases hskip : j = st.i ∨ (!st.qual.contains j) = true
    · simp only [hskip, if_true]
      obtain ⟨I', A', cm', h, a1, a2, a3, a4, a5⟩ := ih hnd.2 I hIr A cm
      have hj : ¬ (j ≠ st.i ∧ j ∈ st.qual) := by
        rintro ⟨h1, h2⟩
        rcases hskip with e | e
        · exact h1 e
        · simp [h2] at e
      refine ⟨I', A', cm', h, a1, a2, fun k => ?_, fun k => ?_, fun k => ?_⟩
      · rw [a3 k]
        by_cases hkj : k = j
        · subst hkj
          have : ¬ (k ≠ st.i ∧ k ∈ st.qual) := hj
          simp only [hnd.1, false_and, if_false]
          rw [if_neg (fun h => this ⟨h.2.1, h.2.2⟩)]
        · simp [hkj]
      · rw [a4 k]
        by_cases hkj : k = j
        · subst hkj
          simp only [hnd.1, false_and, if_false]
          rw [if_neg (fun h => hj ⟨h.2.1, h.2.2.1⟩)]
        · simp [hkj]
      · rw [a5 k]
        by_cases hkj : k = j
        · subst hkj
          simp only [hnd.1, false_and, or_false]
          constructor
          · exact fun h => Or.inl h
          · rintro (h | h)
            · exact h
            · exact absurd ⟨h.2.1, h.2.2.1⟩ hj
        · simp [hkj]
    · simp only [hskip, if_false]
      have hji : j ≠ st.i := fun e => hskip (Or.inl e)
      have hjq : j ∈ st.qual := by
        by_contra hn
        exact hskip (Or.inr (by simp [hn]))
      rw [ag_readElems none j (st.t + 1) I (hI j (by simp))]
      simp only [bind, Except.bind]
      obtain ⟨rhs, hrhs, -⟩ := kg_commitProd_val hG (st.i + 1) (padRow st.t (reS G none (st.t + 1) (bsOf I j) [] false).2.2)
      rw [hrhs]
      simp only
      obtain ⟨I', A', cm', h, a1, a2, a3, a4, a5⟩ := ih hnd.2
        (setB I j (reS G none (st.t + 1) (bsOf I j) [] false).2.1) (fun k hk => by simpa using hIr k hk)
        (A.set j (padRow st.t (reS G none (st.t + 1) (bsOf I j) [] false).2.2))
        (if ((reS G none (st.t + 1) (bsOf I j) [] false).1 || (getI st.gs j != rhs)) = true then cm ++ [j] else cm)
      refine ⟨I', A', cm', h, by rw [a1]; simp, by rw [a2]; simp, fun k => ?_, fun k => ?_, fun k => ?_⟩
      · rw [a3 k]
        by_cases hkj : k = j
        · subst hkj
          simp [hnd.1, hji, hjq, rA, ag_bsOf_setB_self I k _ (hI k (by simp))]
        · have hb : bsOf (setB I j (reS G none (st.t + 1) (bsOf I j) [] false).2.1) k = bsOf I k :=
            ag_bsOf_setB_ne _ _ _ _ (Ne.symm hkj)
          simp [hkj, hb]
      · rw [a4 k]
        by_cases hkj : k = j
        · subst hkj
          simp only [hnd.1, false_and, if_false, List.mem_cons, true_or, true_and, hji, ne_eq, not_false_eq_true,
            hjq, ag_getRow_set, rA]
        · have hb : bsOf (setB I j (reS G none (st.t + 1) (bsOf I j) [] false).2.1) k = bsOf I k :=
            ag_bsOf_setB_ne _ _ _ _ (Ne.symm hkj)
          have hkj' : ¬ j = k := fun e => hkj e.symm
          simp [hkj, hb, ag_getRow_set, hkj']
      · rw [a5 k]
        by_cases hkj : k = j
        · subst hkj
          simp only [hnd.1, false_and, or_false, List.mem_cons, true_and, hji, ne_eq, not_false_eq_true,
            hjq, cbad, rA, hrhs, Except.ok.injEq, exists_eq_left']
          by_cases hb : ((reS G none (st.t + 1) (bsOf I k) [] false).1 || (getI st.gs k != rhs)) = true
          · simp only [hb, if_true, List.mem_append, List.mem_singleton, or_true, true_iff]
            right
            simpa using hb
          · simp only [hb]
            constructor
            · exact fun h => Or.inl h
            · rintro (h | h)
              · exact h
              · exfalso; apply hb; simpa using h
        · have hb : bsOf (setB I j (reS G none (st.t + 1) (bsOf I j) [] false).2.1) k = bsOf I k :=
            ag_bsOf_setB_ne _ _ _ _ (Ne.symm hkj)
          split <;> simp [hkj, hb]

/-! ### the honest parties after round 4 -/

/-- what an honest party keeps from round 3 until the end of `Generate` -/
structure Core (G : Grp) [Fact (Nat.Prime G.p.natAbs)] (n t : Nat) (ins : List PartyIn) (Q : List Nat)
    (Cc : Nat → List Int) (i : Nat) (st : GenSt) : Prop where
  hn : st.n = n
  ht : st.t = t
  hi : st.i = i
  qual : st.qual = Q
  C : ∀ j, j < n → getRow st.C j = Cc j
  slen : st.s.length = n
  splen : st.sp.length = n
  sIn : InR G.q st.s
  spIn : InR G.q st.sp
  gs : gaList G st.s = .ok st.gs
  opn : ∀ j ∈ Q, Eq4 G i (Cc j) (getI st.s j) (getI st.sp j)
  sown : getI st.s i = shA G t (pinOf ins i) i
  ga : gaList G (coefA t (pinOf ins i)) = .ok st.ga
  x : st.x = sumMod G.q st.s Q

theorem T4a.core {n t : Nat} {ins : List PartyIn} {Q : List Nat} {Cc : Nat → List Int} {i : Nat}
    {P : Party GenSt} (h : T4a G n t ins Q Cc i P) : Core G n t ins Q Cc i P.st :=
  ⟨h.hn, h.ht, h.hi, h.qual, h.C, h.slen, h.splen, h.sIn, h.spIn, h.gs, h.opn, h.sown, h.ga, h.x⟩

/-- `g^{s}` as the cache holds it -/
theorem kg_gs_val (hG : ValidGrp G) (s gs : List Int) (hgs : gaList G s = .ok gs) (hs : InR G.q s) (j : Nat)
    (hj : j < s.length) :
    0 ≤ getI gs j ∧ getI gs j < G.p ∧ cp G (getI gs j) = cp G G.g ^ (getI s j) := by
  have h1 := run_gaList_get s gs hgs j hj
  obtain ⟨r, hr, h0, h1', hv⟩ := fspowm_g hG (getI s j) (ag_getI_InR G.q hG.vg.q_pos s hs j)
  rw [h1] at hr
  injection hr with hr
  rw [hr]
  exact ⟨h0, h1', hv⟩

/-- equation (5) in `ZMod p` -/
def Eq5 (G : Dkg.Grp) [Fact (Nat.Prime G.p.natAbs)] (m : Nat) (row : List Int) (s : Int) : Prop :=
  cp G G.g ^ s = powProdFrom (m + 1) 0 (row.map (cp G))

theorem kg_g_zpow_ne_zero (hG : ValidGrp G) (s : Int) : cp G G.g ^ s ≠ 0 :=
  zpow_ne_zero _ (g_unit hG)

/-- the complaint of step 4(b) in `ZMod p` -/
theorem kg_cbad_iff (hG : ValidGrp G) (st : GenSt) (k : Nat) (s : List (Tag × Int)) (hs : InR G.q st.s)
    (hgs : gaList G st.s = .ok st.gs) (hk : k < st.s.length) :
    cbad G st k s ↔ ¬ ((rA G st.t s).1 = false ∧ Eq5 G st.i (padRow st.t (rA G st.t s).2.2) (getI st.s k)) := by
  obtain ⟨g0, g1, gv⟩ := kg_gs_val hG st.s st.gs hgs hs k hk
  obtain ⟨rhs, hrhs, r0, r1, rv⟩ := kg_commitProd_val hG (st.i + 1) (padRow st.t (rA G st.t s).2.2)
  unfold cbad Eq5
  rw [hrhs]
  simp only [Except.ok.injEq, exists_eq_left']
  constructor
  · rintro (h | h) ⟨h1, h2⟩
    · rw [h] at h1; cases h1
    · apply h
      exact cp_inj hG ⟨g0, g1⟩ ⟨r0, r1⟩ (by rw [gv, rv, h2])
  · intro h
    by_cases hc : (rA G st.t s).1 = true
    · exact Or.inl hc
    · right
      intro he
      apply h
      refine ⟨by simpa using hc, ?_⟩
      rw [← gv, he, rv]

theorem kg_Eq5_false_of_bad (hG : ValidGrp G) (t m : Nat) (s : List (Tag × Int)) (v : Int)
    (h : (rA G t s).1 = true) : ¬ Eq5 G m (padRow t (rA G t s).2.2) v := by
  intro he
  have h0 := kg_rA_bad (G := G) t s h
  unfold Eq5 at he
  rw [kg_powProd_zero (m + 1) 0 _ (by
    have := List.mem_map_of_mem (f := cp G) h0
    rwa [kg_cp_zero] at this) (by omega)] at he
  exact kg_g_zpow_ne_zero hG v he

/-- the triples an honest party broadcasts for its complaints of step 4(b) -/
def trip (st : GenSt) : List (Tag × Int) :=
  st.compl.flatMap (fun (it : Nat) => [((none : Tag), (it : Int)), (none, getI st.s it), (none, getI st.sp it)])

/-- round 4 for one honest party -/
theorem kg_round4_party {n t : Nat} {ins : List PartyIn} (S : SetupK G n t ins) (Q : List Nat)
    (Cc : Nat → List Int) (i : Nat) (hi : i ∈ honestIdx ins) (P4 : Party GenSt)
    (hP4 : (cfgGen G n t ins 4)[i]? = some P4) (t4 : T4a G n t ins Q Cc i P4) :
    ∃ P5, (cfgGen G n t ins 5)[i]? = some P5 ∧ Core G n t ins Q Cc i P5.st ∧ HL P5 ∧
      P5.inbox.b.length = n ∧ P5.st.A.length = n ∧
      (∀ k, k < n → getRow P5.st.A k = if k ≠ i ∧ k ∈ Q then padRow t (rA G t (bsOf P4.inbox k)).2.2
        else getRow ((zeroRows n t).set i P4.st.ga) k) ∧
      (∃ cm, P5.st.compl = sortUniq n cm) ∧
      (∀ k, k ∈ P5.st.compl ↔ k < n ∧ k ≠ i ∧ k ∈ Q ∧ cbad G P4.st k (bsOf P4.inbox k)) ∧
      P5.st.s = P4.st.s ∧ P5.st.gs = P4.st.gs ∧
      P5.st.vi = zeros n ∧ P5.st.yi = zeros n ∧ P5.st.z = (zeros n).set i (getI (coefA t (pinOf ins i)) 0) ∧
      P5.st.aik = zeroRows n t ∧
      outOf (genStep G ins n t 4) (cfgGen G n t ins 4) i = (trip P5.st ++ [((none : Tag), (n : Int))], []) ∧
      (∀ k, k < n → bsOf P5.inbox k =
        (if k ≠ i ∧ k ∈ Q then (rA G t (bsOf P4.inbox k)).2.1 else bsOf P4.inbox k) ++
        (if k = i then [] else (outOf (genStep G ins n t 4) (cfgGen G n t ins 4) k).1)) := by
  have hG := S.hG
  have hIb : ∀ j ∈ List.range P4.st.n, j < P4.inbox.b.length := fun j hj => by
    rw [t4.blen, ← t4.hn]; exact List.mem_range.mp hj
  obtain ⟨I', A', cm', hra, b1, b2, b3, b4, b5⟩ := kg_genReadA_spec hG P4.st (List.range P4.st.n)
    List.nodup_range P4.inbox hIb P4.st.A []
  have hs : genStep G ins n t 4 i P4.st P4.inbox = .ok ({ P4.st with A := A', compl := sortUniq P4.st.n cm' }, I',
      (sortUniq P4.st.n cm').flatMap (fun (it : Nat) => [Op.bc none (it : Int), Op.bc none (getI P4.st.s it),
        Op.bc none (getI P4.st.sp it)]) ++ [Op.bc none (P4.st.n : Int)], .run) := by
    show genExtractCheck G P4.st P4.inbox = _
    unfold genExtractCheck
    simp only [hra, bind, Except.bind, pure, Except.pure]
  obtain ⟨hout, P5, hP5, a1, a2, a3, a4, a5, a6, a7, a8, a9⟩ :=
    ag_honest_round (genStep G ins n t 4) _ i P4 hP4 t4.hl _ _ _ _ hs
  have h5 := cfgGen_succ (G := G) n t ins 4
  rw [← h5] at hP5
  have hAlen : P4.st.A.length = n := by rw [t4.A]; simp [zeroRows]
  refine ⟨P5, hP5, ?_, ⟨by rw [a4]; exact t4.hl.1, a5, a3, a2⟩, a6.trans (b1.trans t4.blen), ?_, ?_,
    ⟨cm', by rw [a1, t4.hn]⟩, ?_, by rw [a1], by rw [a1], by rw [a1]; exact t4.vi, by rw [a1]; exact t4.yi,
    by rw [a1]; exact t4.z, by rw [a1]; exact t4.aik, ?_, ?_⟩
  · rw [a1]
    exact ⟨t4.hn, t4.ht, t4.hi, t4.qual, t4.C, t4.slen, t4.splen, t4.sIn, t4.spIn, t4.gs, t4.opn, t4.sown, t4.ga,
      t4.x⟩
  · rw [a1]; exact b2.trans hAlen
  · intro k hk
    rw [a1]
    show getRow A' k = _
    rw [b4 k, t4.hn, t4.hi, t4.qual, t4.ht, hAlen, t4.A]
    simp only [List.mem_range, hk, true_and, and_true]
  · intro k
    rw [a1]
    show k ∈ sortUniq P4.st.n cm' ↔ _
    rw [ag_mem_sortUniq, b5 k, t4.hn, t4.hi, t4.qual]
    simp only [List.not_mem_nil, false_or, List.mem_range]
    constructor
    · rintro ⟨h1, -, h2, h3, h4⟩
      exact ⟨h1, h2, h3, h4⟩
    · rintro ⟨h1, h2, h3, h4⟩
      exact ⟨h1, h1, h2, h3, h4⟩
  · rw [hout, a1]
    have := ag_bcs_triples (sortUniq P4.st.n cm') (fun it => getI P4.st.s it) (fun it => getI P4.st.sp it) P4.st.n
    have hp := ag_pvs_triples (sortUniq P4.st.n cm') (fun it => getI P4.st.s it) (fun it => getI P4.st.sp it) P4.st.n
    rw [this, hp, t4.hn]
    rfl
  · intro k hk
    rw [a8 k (by rw [b1, t4.blen]; exact hk), b3 k, t4.hn, t4.hi, t4.qual, t4.ht]
    simp only [List.mem_range, hk, true_and]

/-- an honest party after round 4 -/
structure T5a (G : Grp) [Fact (Nat.Prime G.p.natAbs)] (n t : Nat) (ins : List PartyIn) (Q : List Nat)
    (Cc Ac : Nat → List Int) (i : Nat) (P : Party GenSt) : Prop where
  core : Core G n t ins Q Cc i P.st
  hl : HL P
  blen : P.inbox.b.length = n
  Alen : P.st.A.length = n
  Arow : ∀ j, j < n → getRow P.st.A j = Ac j
  csort : ∃ cm, P.st.compl = sortUniq n cm
  cbad5 : ∀ j ∈ P.st.compl, j ∈ Q ∧ j ≠ i ∧ j < n ∧ ¬ Eq5 G i (Ac j) (getI P.st.s j)
  good : ∀ j ∈ Q, j ≠ i → j ∉ P.st.compl →
    (Ac j).length = t + 1 ∧ (∀ c ∈ Ac j, Dkg.checkElement G c = true) ∧ Eq5 G i (Ac j) (getI P.st.s j)
  chon : ∀ j, j ∈ honestIdx ins → j ∉ P.st.compl
  own : Ac i = P.st.ga
  vi : P.st.vi = zeros n
  yi : P.st.yi = zeros n
  z : P.st.z = (zeros n).set i (getI (coefA t (pinOf ins i)) 0)
  aik : P.st.aik = zeroRows n t

/-- the configuration after round 4; `Ac` are the common Feldman rows -/
structure K5 (G : Grp) [Fact (Nat.Prime G.p.natAbs)] (n t : Nat) (ins : List PartyIn) (Q : List Nat)
    (Cc Ac : Nat → List Int) (R : List (Party GenSt)) : Prop where
  len : R.length = n
  party : ∀ i, i ∈ honestIdx ins → ∃ P, R[i]? = some P ∧ T5a G n t ins Q Cc Ac i P
  streams : ∀ i j Pi Pj, i ∈ honestIdx ins → j ∈ honestIdx ins → j ≠ i → R[i]? = some Pi → R[j]? = some Pj →
    bsOf Pi.inbox j = trip Pj.st ++ [((none : Tag), (n : Int))]
  ag : Ag n ins R

theorem kg_gaList_length (a ga : List Int) (h : gaList G a = .ok ga) : ga.length = a.length := by
  induction a generalizing ga with
  | nil =>
    simp only [gaList, Except.ok.injEq] at h
    rw [← h]
  | cons x a ih =>
    unfold gaList at h
    obtain ⟨y, -, h⟩ := ag_bind_ok _ _ _ h
    obtain ⟨r, hr, h⟩ := ag_bind_ok _ _ _ h
    simp only [pure, Except.pure, Except.ok.injEq] at h
    rw [← h]
    simp [ih r hr]

/-- reading the Feldman row an honest dealer broadcast -/
theorem kg_rA_honest (hG : ValidGrp G) (t : Nat) (pin : PartyIn) (hc : goodCoins G t pin) (ga : List Int)
    (hga : gaList G (coefA t pin) = .ok ga) :
    rA G t (ga.map (fun v => ((none : Tag), v))) = (false, [], ga) ∧ padRow t ga = ga ∧ ga.length = t + 1 := by
  obtain ⟨ha, -, hla, -⟩ := ag_coef_range (G := G) t pin hc
  have hlen : ga.length = t + 1 := (kg_gaList_length _ _ hga).trans hla
  have h := ag_reS_honest (G := G) ga (ra_ga_checkElement hG _ ha _ hga) [] [] false
  rw [hlen] at h
  simp only [List.append_nil, List.nil_append] at h
  exact ⟨h, ag_padRow_full t ga hlen, hlen⟩

theorem kg_round4 {n t : Nat} {ins : List PartyIn} (S : SetupK G n t ins)
    (fam : Nat → Polynomial (ZMod G.q.natAbs)) (Q : List Nat) (Cc : Nat → List Int)
    (k4 : K4 G n t ins Q Cc (cfgGen G n t ins 4))
    (hbind : ∀ j, j < n → BindsRunG G n t ins (Cc j) (fam j))
    (hfamH : ∀ j, j ∈ honestIdx ins → fam j = polyOf ((coefA t (pinOf ins j)).map (cq G))) :
    ∃ Ac, K5 G n t ins Q Cc Ac (cfgGen G n t ins 5) := by
  have hG := S.hG
  have hq : 0 < G.q := hG.vg.q_pos
  have : Fact (Nat.Prime G.q.natAbs) := fact_q hG
  obtain ⟨hHl, hHnd, hHlt⟩ := kg_honest_nonempty S
  obtain ⟨i0, hi0⟩ : ∃ i0, i0 ∈ honestIdx ins := by
    cases hH : honestIdx ins with
    | nil => rw [hH] at hHl; simp at hHl
    | cons a l => exact ⟨a, by simp⟩
  -- every honest party
  have hparty : ∀ i, i ∈ honestIdx ins → ∃ P4 P5, (cfgGen G n t ins 4)[i]? = some P4 ∧
      T4a G n t ins Q Cc i P4 ∧
      (∀ j, j ∈ honestIdx ins → j ≠ i → ∀ ga', gaList G (coefA t (pinOf ins j)) = .ok ga' →
        bsOf P4.inbox j = ga'.map (fun v => ((none : Tag), v))) ∧
      (cfgGen G n t ins 5)[i]? = some P5 ∧ Core G n t ins Q Cc i P5.st ∧ HL P5 ∧
      P5.inbox.b.length = n ∧ P5.st.A.length = n ∧
      (∀ k, k < n → getRow P5.st.A k = if k ≠ i ∧ k ∈ Q then padRow t (rA G t (bsOf P4.inbox k)).2.2
        else getRow ((zeroRows n t).set i P4.st.ga) k) ∧
      (∃ cm, P5.st.compl = sortUniq n cm) ∧
      (∀ k, k ∈ P5.st.compl ↔ k < n ∧ k ≠ i ∧ k ∈ Q ∧ cbad G P4.st k (bsOf P4.inbox k)) ∧
      P5.st.s = P4.st.s ∧ P5.st.gs = P4.st.gs ∧
      P5.st.vi = zeros n ∧ P5.st.yi = zeros n ∧ P5.st.z = (zeros n).set i (getI (coefA t (pinOf ins i)) 0) ∧
      P5.st.aik = zeroRows n t ∧
      outOf (genStep G ins n t 4) (cfgGen G n t ins 4) i = (trip P5.st ++ [((none : Tag), (n : Int))], []) ∧
      (∀ k, k < n → bsOf P5.inbox k =
        (if k ≠ i ∧ k ∈ Q then (rA G t (bsOf P4.inbox k)).2.1 else bsOf P4.inbox k) ++
        (if k = i then [] else (outOf (genStep G ins n t 4) (cfgGen G n t ins 4) k).1)) := by
    intro i hi
    obtain ⟨P4, hP4, t4, fH⟩ := k4.party i hi
    obtain ⟨P5, h⟩ := kg_round4_party S Q Cc i hi P4 hP4 t4
    exact ⟨P4, P5, hP4, t4, fH, h⟩
  -- what an honest reader gets from an honest dealer
  have hread : ∀ i j, i ∈ honestIdx ins → j ∈ honestIdx ins → j ≠ i → ∀ P4 Pj4,
      (cfgGen G n t ins 4)[i]? = some P4 → (cfgGen G n t ins 4)[j]? = some Pj4 →
      rA G t (bsOf P4.inbox j) = (false, [], Pj4.st.ga) ∧ padRow t Pj4.st.ga = Pj4.st.ga := by
    intro i j hi hj hji P4 Pj4 hP4 hPj4
    obtain ⟨P4', hP4', t4, fH⟩ := k4.party i hi
    obtain ⟨Pj', hPj', tj, -⟩ := k4.party j hj
    rw [Option.some.inj (hP4.symm.trans hP4'), Option.some.inj (hPj4.symm.trans hPj'), fH j hj hji _ tj.ga]
    obtain ⟨r1, r2, -⟩ := kg_rA_honest hG t (pinOf ins j) (S.hc j hj) _ tj.ga
    exact ⟨r1, r2⟩
  obtain ⟨P40, P50, hP40, t40, fH0, hP50, c50, hl50, bl50, al50, ar50, -⟩ := hparty i0 hi0
  refine ⟨fun j => getRow P50.st.A j, ?_⟩
  -- the rows agree
  have hrows : ∀ i, i ∈ honestIdx ins → ∀ P5, (cfgGen G n t ins 5)[i]? = some P5 →
      ∀ k, k < n → getRow P5.st.A k = getRow P50.st.A k := by
    intro i hi P5' hP5' k hk
    obtain ⟨P4, P5, hP4, t4, fH, hP5, c5, hl5, bl5, al5, ar5, -⟩ := hparty i hi
    rw [Option.some.inj (hP5'.symm.trans hP5)]
    by_cases hii : i = i0
    · subst hii
      rw [Option.some.inj (hP5.symm.trans hP50)]
    rw [ar5 k hk, ar50 k hk]
    have hiQ : i ∈ Q := k4.qh i hi
    have hi0Q : i0 ∈ Q := k4.qh i0 hi0
    have hi1 := hHlt i hi
    have hi01 := hHlt i0 hi0
    by_cases hkQ : k ∈ Q
    · by_cases hki : k = i
      · subst hki
        have := hread i0 k hi0 hi hii P40 P4 hP40 hP4
        simp only [ne_eq, not_true_eq_false, false_and, if_false, hii, not_false_eq_true, hkQ, and_self, if_true]
        rw [this.1, this.2, getRow_set_self _ _ _ (by simp [zeroRows, hk])]
      · by_cases hki0 : k = i0
        · subst hki0
          have := hread i k hi hi0 (Ne.symm hii) P4 P40 hP4 hP40
          simp only [ne_eq, hki, not_false_eq_true, hkQ, and_self, if_true, not_true_eq_false, false_and, if_false]
          rw [this.1, this.2, getRow_set_self _ _ _ (by simp [zeroRows, hk])]
        · simp only [ne_eq, hki, not_false_eq_true, hkQ, and_self, if_true, hki0]
          rw [k4.ag i i0 P4 P40 hi hi0 hP4 hP40 k hk hki hki0]
    · have hki : k ≠ i := fun e => hkQ (e ▸ hiQ)
      have hki0 : k ≠ i0 := fun e => hkQ (e ▸ hi0Q)
      simp only [hkQ, and_false, if_false]
      rw [getRow_set_ne _ _ _ _ hki, getRow_set_ne _ _ _ _ hki0]
  refine ⟨by rw [cfgGen_length n t ins S.hn], ?_, ?_, ?_⟩
  · intro i hi
    obtain ⟨P4, P5, hP4, t4, fH, hP5, c5, hl5, bl5, al5, ar5, cs5, cm5, es, eg, v5, y5, z5, k5, out5, in5⟩ := hparty i hi
    have hi1 := hHlt i hi
    have hrow : ∀ k, k < n → k ≠ i → k ∈ Q → getRow P50.st.A k = padRow t (rA G t (bsOf P4.inbox k)).2.2 := by
      intro k hk hki hkQ
      rw [← hrows i hi P5 hP5 k hk, ar5 k hk]
      simp [hki, hkQ]
    have hcb : ∀ k, k < n → k ≠ i → k ∈ Q → (cbad G P4.st k (bsOf P4.inbox k) ↔
        ¬ ((rA G t (bsOf P4.inbox k)).1 = false ∧ Eq5 G i (getRow P50.st.A k) (getI P5.st.s k))) := by
      intro k hk hki hkQ
      have := kg_cbad_iff hG P4.st k (bsOf P4.inbox k) t4.sIn t4.gs (by rw [t4.slen]; exact hk)
      rw [t4.ht, t4.hi] at this
      rw [this, hrow k hk hki hkQ, es]
    have hB1 := kg_share_on_fam S fam Q Cc hbind k4.qlt _ (occAt_cfg n t ins 4) i hi P4 hP4 t4.sIn t4.spIn t4.slen
      t4.splen t4.opn
    refine ⟨P5, hP5, ⟨c5, hl5, bl5, al5, fun j hj => hrows i hi P5 hP5 j hj, cs5, ?_, ?_, ?_, ?_, v5, y5, z5, k5⟩⟩
    · intro j hj
      obtain ⟨h1, h2, h3, h4⟩ := (cm5 j).mp hj
      refine ⟨h3, h2, h1, ?_⟩
      have := (hcb j h1 h2 h3).mp h4
      intro he
      by_cases hc : (rA G t (bsOf P4.inbox j)).1 = true
      · rw [hrow j h1 h2 h3] at he
        exact kg_Eq5_false_of_bad hG t i _ _ hc he
      · exact this ⟨by simpa using hc, he⟩
    · intro j hjQ hji hjc
      have hj1 := k4.qlt j hjQ
      have hnb : ¬ cbad G P4.st j (bsOf P4.inbox j) := fun hb => hjc ((cm5 j).mpr ⟨hj1, hji, hjQ, hb⟩)
      rw [hcb j hj1 hji hjQ, not_not] at hnb
      obtain ⟨g1, g2, g3⟩ := kg_rA_good (G := G) t _ hnb.1
      rw [hrow j hj1 hji hjQ, g1]
      refine ⟨g2, g3, ?_⟩
      have := hnb.2
      rwa [hrow j hj1 hji hjQ, g1] at this
    · intro j hj hjc
      obtain ⟨h1, h2, h3, h4⟩ := (cm5 j).mp hjc
      obtain ⟨Pj4, hPj4, tj4, -⟩ := k4.party j hj
      obtain ⟨r1, r2⟩ := hread i j hi hj h2 P4 Pj4 hP4 hPj4
      rw [hcb j h1 h2 h3, hrow j h1 h2 h3, r1] at h4
      apply h4
      refine ⟨rfl, ?_⟩
      simp only
      rw [r2, es]
      -- equation (5) for the shares of an honest dealer
      obtain ⟨ha, -, hla, -⟩ := ag_coef_range (G := G) t (pinOf ins j) (S.hc j hj)
      obtain ⟨l, r, e1, e2, e3⟩ := feldman_check hG _ ha _ tj4.ga (i + 1)
      obtain ⟨l', e1', -, -, hlv⟩ := fspowm_g hG (evalShare G.q (coefA t (pinOf ins j)) (i + 1))
        (evalShare_natAbs hG _ _)
      obtain ⟨r', e2', -, -, hrv⟩ := kg_commitProd_val hG (i + 1) Pj4.st.ga
      rw [e1] at e1'
      rw [e2] at e2'
      have e1'' := Except.ok.inj e1'
      have e2'' := Except.ok.inj e2'
      subst e1'' e2''
      unfold Eq5
      rw [← hrv, ← e3, hlv]
      apply g_zpow_congr hG
      rw [hB1 j h3, hfamH j hj]
      exact (evalShare_on_poly hq _ i).symm
    · rw [ar50 i hi1]
      have hiQ : i ∈ Q := k4.qh i hi
      by_cases hii : i = i0
      · subst hii
        simp only [ne_eq, not_true_eq_false, false_and, if_false]
        rw [getRow_set_self _ _ _ (by simp [zeroRows, hi1])]
        exact Except.ok.inj (t40.ga.symm.trans c5.ga)
      · simp only [ne_eq, hii, not_false_eq_true, hiQ, and_self, if_true]
        have := hread i0 i hi0 hi hii P40 P4 hP40 hP4
        rw [this.1, this.2]
        exact Except.ok.inj (t4.ga.symm.trans c5.ga)
  · intro i j Pi Pj hi hj hji hPi hPj
    obtain ⟨P4, P5, hP4, t4, fH, hP5, c5, hl5, bl5, al5, ar5, cs5, cm5, es, eg, v5, y5, z5, k5, out5, in5⟩ := hparty i hi
    obtain ⟨Pj4, Pj5, hPj4, tj4, -, hPj5, -, -, -, -, -, -, -, -, -, -, -, -, -, outj, -⟩ := hparty j hj
    rw [Option.some.inj (hPi.symm.trans hP5), Option.some.inj (hPj.symm.trans hPj5)]
    have hj1 := hHlt j hj
    rw [in5 j hj1, (hread i j hi hj hji P4 Pj4 hP4 hPj4).1, outj]
    simp [hji, k4.qh j hj]
  · intro i i' P P' hi hi' hP hP' k hk hki hki'
    obtain ⟨P4, P5, hP4, t4, fH, hP5, c5, hl5, bl5, al5, ar5, cs5, cm5, es, eg, v5, y5, z5, k5, out5, in5⟩ := hparty i hi
    obtain ⟨Q4, Q5, hQ4, u4, -, hQ5, -, -, -, -, -, -, -, -, -, -, -, -, -, -, in5'⟩ := hparty i' hi'
    rw [Option.some.inj (hP.symm.trans hP5), Option.some.inj (hP'.symm.trans hQ5)]
    rw [in5 k hk, in5' k hk, k4.ag i i' P4 Q4 hi hi' hP4 hQ4 k hk hki hki']
    simp [hki, hki']

end Tmcg.DkgP
