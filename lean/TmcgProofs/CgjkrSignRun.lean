import TmcgProofs.CgjkrSign
import TmcgProofs.Dkg
import Tmcg.Model.CgjkrSign
/-
  C16 on the step-by-step model of `CanettiGennaroJareckiKrawczykRabinDSS::Sign`
  (Tmcg/Model/CgjkrSign.lean): what the last reading actions of the model compute, and the agreement /
  validity of the signature under explicit binding hypotheses.

    * `doAct_done_true`     the only action of the schedule that ends `Sign` with `true` is the last one
                            (`shRead 1`, step 2f)
    * `sReadShares_sound`   steps 1f / 2f: every share the party accepts passed the check against the public
                            commitments (`ShareOk`), the accepted positions are distinct and `< m`
    * `shRead0_spec`        step 1f/1g: `mu` is the Lagrange value of the first `t+1` accepted shares,
                            `r = ((a_dkg->y)^{mu^{-1}} mod p) mod q`, and the step-2 values `a_i = m + x_i r`
    * `shRead1_spec`        step 2f: `s` is the Lagrange value of the first `t+1` accepted shares
    * `lagrangeP_val`       interpolation with index maps: shares on a polynomial of degree `≤ t` give its
                            value at 0
    * `BindsView`           the binding hypothesis for one party's view of one combined sharing
    * `sign_mu_agree`, `sign_s_agree`   two parties whose views are bound to the same polynomial obtain the
                            same `mu` (hence, with the same `a_dkg->y`, the same `r`) and the same `s`
    * `sign_final_valid`    the pair `(r, s)` of a party that completes is accepted by `Tsig.dssVerify`
                            under the key `y = g^x` when `mu ≡ k·a`, `a_dkg->y = g^a`, `s ≡ k(m + x r)`
-/
namespace Tmcg.CgjkrSignRunP
open Tmcg Tmcg.Powm Tmcg.Dkg Tmcg.Grp Tmcg.DkgL Tmcg.DkgP Tmcg.Cgjkr Tmcg.CgjkrSign
open Polynomial

theorem getN_lt (l : List Nat) (j : Nat) (h : j < l.length) : getN l j = l[j] := by
  unfold getN; exact List.getD_eq_getElem l 0 h

/-- the check of a combined share `(foo, bar)` of the party at position `j`, as party `st.i` makes it in
    steps 1f (`kindV = 2`) / 2f (`kindV = 4`) -/
def ShareOk (G : Dkg.Grp) (st : SSt) (kindV j : Nat) (foo bar : Int) : Prop :=
  ∃ l r, pedF G foo bar = .ok l ∧ sShareRhs (st.env G) st kindV j st.signers 1 = .ok r ∧ l = r

/-- the actions that can end `Sign` with `true`: `shRead ph` with `ph ≠ 0` (the model treats every `ph ≠ 0`
    like `ph = 1`) -/
theorem doAct_done_true_gen (G : Dkg.Grp) (a : Act) (st st' : SSt) (I I' : Inbox) (ops : List Op)
    (h : doAct G a st I = .ok (.done st' I' ops true)) : ∃ ph, ph ≠ 0 ∧ a = .shRead ph := by
  cases a <;> simp only [doAct, bind, Except.bind, pure, Except.pure, fail] at h
  all_goals try (repeat' (split at h)) <;> simp at h
  all_goals exact ⟨_, by assumption, rfl⟩

/-- the schedule contains `shRead ph` for `ph = 0, 1` only -/
theorem shRead_mem_actions (m t ph : Nat) (h : Act.shRead ph ∈ actions m t) : ph = 0 ∨ ph = 1 := by
  unfold actions at h
  simp only [List.mem_append, vssSlots, dBlock, recSlots, List.mem_cons, List.mem_map, List.mem_flatMap,
    List.not_mem_nil, reduceCtorEq, and_false, exists_false, false_or, or_false,
    Act.shRead.injEq] at h
  exact h

/-- the only way `Sign` returns `true`.
    CORRECTED: as first stated (for an arbitrary `a : Act`) this is false — `doAct` tests `ph = 0` only, so
    `shRead 2`, `shRead 3`, … behave like `shRead 1` and also end with `true` (see `doAct_done_true_gen`).
    Added hypothesis `ha`: the action belongs to the schedule `actions m t` (which is all `runSign` executes). -/
theorem doAct_done_true (G : Dkg.Grp) (a : Act) (st st' : SSt) (I I' : Inbox) (ops : List Op)
    (m t : Nat) (ha : a ∈ actions m t)
    (h : doAct G a st I = .ok (.done st' I' ops true)) : a = .shRead 1 := by
  obtain ⟨ph, hph, rfl⟩ := doAct_done_true_gen G a st st' I I' ops h
  rcases shRead_mem_actions m t ph ha with h | h
  · exact absurd h hph
  · rw [h]

/-- `sReadShares_sound` with the weaker hypothesis on the initial positions that the callers need: the
    own position `st.i` may occur in `idx` (the reader skips it) -/
theorem sReadShares_sound_gen (G : Dkg.Grp) (st : SSt) (kindV : Nat) (idx : List Nat) (hnd : idx.Nodup)
    (I : Inbox) (parties0 : List Nat) (shares0 : List Int) (I' : Inbox) (parties : List Nat) (shares : List Int)
    (hlen : shares0.length = st.m) (hidx : ∀ j ∈ idx, j < st.m)
    (h0 : ∀ j ∈ parties0, j = st.i ∨ j ∉ idx)
    (h : sReadShares (st.env G) st kindV idx I parties0 shares0 = .ok (I', parties, shares)) :
    shares.length = st.m ∧
    (∀ j ∈ parties0, j ∈ parties ∧ getI shares j = getI shares0 j) ∧
    (parties0.Nodup → parties.Nodup) ∧
    ∀ j ∈ parties, j ∈ parties0 ∨
      (j ∈ idx ∧ j ≠ st.i ∧ ∃ bar, (getI shares j).natAbs < G.q.natAbs ∧ bar.natAbs < G.q.natAbs ∧
        ShareOk G st kindV j (getI shares j) bar) := by
  induction idx generalizing I parties0 shares0 with
  | nil =>
    simp only [sReadShares, Except.ok.injEq, Prod.mk.injEq] at h
    obtain ⟨rfl, rfl, rfl⟩ := h
    exact ⟨hlen, fun j hj => ⟨hj, rfl⟩, id, fun j hj => Or.inl hj⟩
  | cons j rest ih =>
    obtain ⟨hjr, hndr⟩ := List.nodup_cons.mp hnd
    have hidx' : ∀ a ∈ rest, a < st.m := fun a ha => hidx a (List.mem_cons_of_mem _ ha)
    have lift : ∀ (I1 : Inbox) (parties1 : List Nat) (shares1 : List Int), shares1.length = st.m →
        (∀ a ∈ parties0, a ∈ parties1 ∧ getI shares1 a = getI shares0 a) →
        (parties0.Nodup → parties1.Nodup) →
        (∀ a ∈ parties1, a ∈ parties0 ∨ (a = j ∧ a ≠ st.i ∧ ∃ bar, (getI shares1 a).natAbs < G.q.natAbs ∧
          bar.natAbs < G.q.natAbs ∧ ShareOk G st kindV a (getI shares1 a) bar)) →
        sReadShares (st.env G) st kindV rest I1 parties1 shares1 = .ok (I', parties, shares) →
        shares.length = st.m ∧
        (∀ j ∈ parties0, j ∈ parties ∧ getI shares j = getI shares0 j) ∧
        (parties0.Nodup → parties.Nodup) ∧
        ∀ a ∈ parties, a ∈ parties0 ∨
          (a ∈ j :: rest ∧ a ≠ st.i ∧ ∃ bar, (getI shares a).natAbs < G.q.natAbs ∧ bar.natAbs < G.q.natAbs ∧
            ShareOk G st kindV a (getI shares a) bar) := by
      intro I1 parties1 shares1 hl1 h2 h3 h4 hrec
      have h01 : ∀ a ∈ parties1, a = st.i ∨ a ∉ rest := by
        intro a ha
        rcases h4 a ha with h | ⟨rfl, _⟩
        · exact (h0 a h).imp id (fun hn hm => hn (List.mem_cons_of_mem _ hm))
        · exact Or.inr hjr
      obtain ⟨i1, i2, i3, i4⟩ := ih hndr I1 parties1 shares1 hl1 hidx' h01 hrec
      refine ⟨i1, ?_, fun hn => i3 (h3 hn), ?_⟩
      · intro a ha
        obtain ⟨m1, e1⟩ := h2 a ha
        obtain ⟨m2, e2⟩ := i2 a m1
        exact ⟨m2, e2.trans e1⟩
      · intro a ha
        rcases i4 a ha with hm | ⟨hm, hne, hb⟩
        · rcases h4 a hm with h | ⟨rfl, hne, bar, b1, b2, b3⟩
          · exact Or.inl h
          · right
            have e := (i2 a hm).2
            rw [e]
            exact ⟨List.mem_cons_self, hne, bar, b1, b2, b3⟩
        · exact Or.inr ⟨List.mem_cons_of_mem _ hm, hne, hb⟩
    have triv := fun I1 => lift I1 parties0 shares0 hlen (fun a ha => ⟨ha, rfl⟩) id (fun a ha => Or.inl ha)
    simp only [sReadShares] at h
    split at h
    · exact triv _ h
    · rename_i hcond
      split at h
      · exact triv _ h
      · rename_i vs I1 hpop
        split at h
        · exact triv _ h
        · rename_i habs
          simp only [bind, Except.bind] at h
          have hE : (SSt.env G st).G = G := rfl
          rw [hE] at h habs
          have hj : j < shares0.length := by rw [hlen]; exact hidx j List.mem_cons_self
          have hjp : j ∉ parties0 := fun hm => (h0 j hm).elim (fun e => hcond (Or.inl e))
            (fun hn => hn List.mem_cons_self)
          have hab : (getI vs 0).natAbs < G.q.natAbs ∧ (getI vs 1).natAbs < G.q.natAbs := by
            simp only [absGe, Bool.or_eq_true, decide_eq_true_eq, not_or, not_le] at habs
            exact habs
          have hset : ∀ a ∈ parties0, getI (shares0.set j (getI vs 0)) a = getI shares0 a := by
            intro a ha
            rw [getI_set]
            have : a ≠ j := fun e => hjp (e ▸ ha)
            simp [this]
          cases hl : pedF G (getI vs 0) (getI vs 1) with
          | error e => rw [hl] at h; cases h
          | ok lhs =>
            rw [hl] at h
            simp only at h
            cases hrh : sShareRhs (SSt.env G st) st kindV j st.signers 1 with
            | error e => rw [hrh] at h; cases h
            | ok rhs =>
              rw [hrh] at h
              simp only at h
              by_cases heq : lhs = rhs
              · have : (lhs == rhs) = true := by simp [heq]
                rw [this] at h
                simp only [if_true] at h
                refine lift _ _ _ (by rw [List.length_set]; exact hlen)
                  (fun a ha => ⟨List.mem_append_left _ ha, hset a ha⟩) ?_ ?_ h
                · intro hn
                  exact List.Nodup.append hn (List.nodup_singleton j) (by simpa using hjp)
                · intro a ha
                  rcases List.mem_append.mp ha with ha | ha
                  · exact Or.inl ha
                  · have : a = j := by simpa using ha
                    subst this
                    right
                    have hg : getI (shares0.set a (getI vs 0)) a = getI vs 0 := by
                      rw [getI_set]; simp [hj]
                    rw [hg]
                    exact ⟨rfl, fun e => hcond (Or.inl e), getI vs 1, hab.1, hab.2, lhs, rhs, hl, hrh, heq⟩
              · have : (lhs == rhs) = false := by simp [heq]
                rw [this] at h
                simp only [Bool.false_eq_true, if_false] at h
                exact lift _ _ _ (by rw [List.length_set]; exact hlen)
                  (fun a ha => ⟨ha, hset a ha⟩) id (fun a ha => Or.inl ha) h

/-- steps 1f / 2f: what `sReadShares` accepts -/
theorem sReadShares_sound (G : Dkg.Grp) (st : SSt) (kindV : Nat) (idx : List Nat) (hnd : idx.Nodup)
    (I : Inbox) (parties0 : List Nat) (shares0 : List Int) (I' : Inbox) (parties : List Nat) (shares : List Int)
    (hlen : shares0.length = st.m) (hidx : ∀ j ∈ idx, j < st.m)
    (h0 : ∀ j ∈ parties0, j ∉ idx)
    (h : sReadShares (st.env G) st kindV idx I parties0 shares0 = .ok (I', parties, shares)) :
    shares.length = st.m ∧
    (∀ j ∈ parties0, j ∈ parties ∧ getI shares j = getI shares0 j) ∧
    (parties0.Nodup → parties.Nodup) ∧
    ∀ j ∈ parties, j ∈ parties0 ∨
      (j ∈ idx ∧ j ≠ st.i ∧ ∃ bar, (getI shares j).natAbs < G.q.natAbs ∧ bar.natAbs < G.q.natAbs ∧
        ShareOk G st kindV j (getI shares j) bar) := by
  exact sReadShares_sound_gen G st kindV idx hnd I parties0 shares0 I' parties shares hlen hidx
    (fun j hj => Or.inr (h0 j hj)) h

/-- step 1f / 1g -/
theorem shRead0_spec (G : Dkg.Grp) (st st' : SSt) (I I' : Inbox) (ops : List Op)
    (h : doAct G (.shRead 0) st I = .ok (.go st' I' ops)) :
    ∃ parties shares mi rp,
      sReadShares (st.env G) st 2 (List.range st.m) I [st.i] ((zeros st.m).set st.i st.s) = .ok (I', parties, shares) ∧
      st.t < parties.length ∧
      lagrangeP (st.env G) (parties.take (st.t + 1)) shares = some st'.mu ∧
      invm st'.mu G.q = some mi ∧ mpzPowm st.ag.y mi G.p = .ok rp ∧ st'.r = rp % G.q ∧
      st'.ai = ((st.x * st'.r) % G.q + st.msg) % G.q ∧ st'.ap = ((st.xp * st'.r) % G.q + st.msg) % G.q ∧
      st'.ag = st.ag ∧ st'.ki = st.ki ∧ st'.kp = st.kp ∧ ops = [] := by
  simp only [doAct, bind, Except.bind, if_true] at h
  cases hr : sReadShares (SSt.env G st) st 2 (List.range st.m) I [st.i] ((zeros st.m).set st.i st.s) with
  | error e => rw [hr] at h; cases h
  | ok R =>
    obtain ⟨I1, parties, shares⟩ := R
    rw [hr] at h
    simp only [fail, pure, Except.pure] at h
    split at h
    · simp at h
    · rename_i hlen
      split at h
      · simp at h
      · rename_i v hv
        split at h
        · simp at h
        · rename_i mi hmi
          cases h1 : mpzPowm st.ag.y mi G.p with
          | error e => rw [h1] at h; cases h
          | ok rp =>
            rw [h1] at h
            simp only at h
            cases h2 : fpowm G.tabG G.g (st.msg % G.q) G.p with
            | error e => rw [h2] at h; cases h
            | ok gm =>
              rw [h2] at h
              simp only at h
              cases h3 : fpowm G.tabH G.h (st.msg % G.q) G.p with
              | error e => rw [h3] at h; cases h
              | ok hm =>
                rw [h3] at h
                simp only at h
                split at h
                · cases h
                · simp only [Except.ok.injEq, AOut.go.injEq] at h
                  obtain ⟨rfl, rfl, rfl⟩ := h
                  exact ⟨parties, shares, mi, rp, rfl, by omega, hv, hmi, h1, rfl, rfl, rfl, rfl, rfl, rfl, rfl⟩

/-- step 2f -/
theorem shRead1_spec (G : Dkg.Grp) (st st' : SSt) (I I' : Inbox) (ops : List Op)
    (h : doAct G (.shRead 1) st I = .ok (.done st' I' ops true)) :
    ∃ parties shares,
      sReadShares (st.env G) st 4 (List.range st.m) I [st.i] ((zeros st.m).set st.i st.s) = .ok (I', parties, shares) ∧
      st.t < parties.length ∧
      lagrangeP (st.env G) (parties.take (st.t + 1)) shares = some st'.s ∧
      st'.r = st.r ∧ st'.mu = st.mu ∧ ops = [] := by
  simp only [doAct, bind, Except.bind, show ((1:Nat) = 0) = False by simp, if_false] at h
  cases hr : sReadShares (SSt.env G st) st 4 (List.range st.m) I [st.i] ((zeros st.m).set st.i st.s) with
  | error e => rw [hr] at h; cases h
  | ok R =>
    obtain ⟨I1, parties, shares⟩ := R
    rw [hr] at h
    simp only [fail, pure, Except.pure] at h
    split at h
    · simp at h
    · rename_i hlen
      split at h
      · simp at h
      · rename_i v hv
        simp only [Except.ok.injEq, AOut.done.injEq] at h
        obtain ⟨rfl, rfl, rfl, _⟩ := h
        exact ⟨parties, shares, rfl, by omega, hv, rfl, rfl, rfl⟩

variable {G : Dkg.Grp} [Fact (Nat.Prime G.p.natAbs)] [Fact (Nat.Prime G.q.natAbs)]

set_option linter.unusedSectionVars false
set_option linter.unusedVariables false

/-- interpolation with index maps: the shares of the positions `parties` lie on `F` (abscissa of position
    `j`: `idx2dkg[j] + 1`), `|parties| > deg F` -/
theorem lagrangeP_val (hG : ValidGrp G) (E : Env) (hE : E.G = G) (hpts : E.pts.Nodup)
    (hsmall : ∀ d ∈ E.pts, (d : Int) + 1 < G.q)
    (parties : List Nat) (hp : parties.Nodup) (hlt : ∀ j ∈ parties, j < E.pts.length)
    (F : Polynomial (ZMod G.q.natAbs)) (hF : F.degree < (parties.length : Nat)) (shares : List Int)
    (hs : ∀ j ∈ parties, ((getI shares j : Int) : ZMod G.q.natAbs) = F.eval (pt G.q (getN E.pts j))) :
    ∃ v, lagrangeP E parties shares = some v ∧ 0 ≤ v ∧ v < G.q ∧ ((v : Int) : ZMod G.q.natAbs) = F.eval 0 := by
  subst hE
  have hq : 0 < E.G.q := hG.vg.q_pos
  have hgp : GoodParties E.G.q (parties.map (getN E.pts)) := by
    constructor
    · apply List.Nodup.map_on _ hp
      intro x hx y hy hxy
      rw [getN_lt _ _ (hlt x hx), getN_lt _ _ (hlt y hy)] at hxy
      exact (List.Nodup.getElem_inj_iff hpts).mp hxy
    · intro d hd
      obtain ⟨j, hj, rfl⟩ := List.mem_map.mp hd
      apply hsmall
      rw [getN_lt _ _ (hlt j hj)]
      exact List.getElem_mem _
  unfold lagrangeP
  apply lagrange0_val hq _ hgp F (by rw [List.length_map]; exact hF)
  intro d hd
  obtain ⟨j, hj, rfl⟩ := List.mem_map.mp hd
  have : E.pts.idxOf (getN E.pts j) = j := by
    rw [getN_lt _ _ (hlt j hj)]
    exact List.Nodup.idxOf_getElem hpts j (hlt j hj)
  simp only [this]
  exact hs j hj

/-- **binding hypothesis** for the view party `st.i` has of the combined sharing of step 1f / 2f: its own
    share (kept in `st.s`) and every pair that passes its check lie on the polynomial `F` of degree `≤ t`.
    (A violation yields two openings of one Pedersen commitment, i.e. `log_g h`.) -/
def BindsView (G : Dkg.Grp) (st : SSt) (kindV : Nat) (F : Polynomial (ZMod G.q.natAbs)) : Prop :=
  F.degree < ((st.t + 1 : Nat) : WithBot Nat) ∧
  ((st.s : Int) : ZMod G.q.natAbs) = F.eval (pt G.q (getN st.pts st.i)) ∧
  ∀ j foo bar, j < st.m → foo.natAbs < G.q.natAbs → bar.natAbs < G.q.natAbs →
    ShareOk G st kindV j foo bar → ((foo : Int) : ZMod G.q.natAbs) = F.eval (pt G.q (getN st.pts j))

/-- standing hypotheses on the signer set of a `Sign` state -/
structure SignerSet (G : Dkg.Grp) (st : SSt) : Prop where
  hm : st.pts.length = st.m
  hi : st.i < st.m
  hnd : st.pts.Nodup
  hsmall : ∀ d ∈ st.pts, (d : Int) + 1 < G.q

/-- steps 1f / 2f, interpolation: whatever `t+1` first accepted positions the party interpolates from, the
    result is `F(0)` when its view is bound to `F` -/
theorem shares_val (hG : ValidGrp G) (st : SSt) (kindV : Nat) (hS : SignerSet G st)
    (F : Polynomial (ZMod G.q.natAbs)) (hB : BindsView G st kindV F) (I I' : Inbox) (parties : List Nat)
    (shares : List Int)
    (hr : sReadShares (st.env G) st kindV (List.range st.m) I [st.i] ((zeros st.m).set st.i st.s) =
      .ok (I', parties, shares))
    (hlen : st.t < parties.length) (v : Int)
    (hv : lagrangeP (st.env G) (parties.take (st.t + 1)) shares = some v) :
    0 ≤ v ∧ v < G.q ∧ ((v : Int) : ZMod G.q.natAbs) = F.eval 0 := by
  obtain ⟨hm, hi, hnd, hsmall⟩ := hS
  obtain ⟨hdeg, hown, hoth⟩ := hB
  have hz : (zeros st.m).length = st.m := by simp [zeros]
  obtain ⟨s1, s2, s3, s4⟩ := sReadShares_sound_gen G st kindV (List.range st.m) List.nodup_range I [st.i]
    ((zeros st.m).set st.i st.s) I' parties shares (by rw [List.length_set]; exact hz)
    (fun j hj => List.mem_range.mp hj) (fun j hj => Or.inl (by simpa using hj)) hr
  have hsi : getI shares st.i = st.s := by
    rw [(s2 st.i (by simp)).2, getI_set]
    simp [hz, hi]
  have hpn : parties.Nodup := s3 (List.nodup_singleton _)
  have hplt : ∀ j ∈ parties, j < st.m := by
    intro j hj
    rcases s4 j hj with h | ⟨h, _⟩
    · have : j = st.i := by simpa using h
      omega
    · exact List.mem_range.mp h
  obtain ⟨v', hv', h0, h1, h2⟩ := lagrangeP_val hG (st.env G) rfl hnd hsmall (parties.take (st.t + 1))
    (hpn.sublist (List.take_sublist _ _))
    (fun j hj => by
      have := hplt j (List.mem_of_mem_take hj)
      show j < st.pts.length
      omega) F
    (by
      rw [List.length_take, Nat.min_eq_left (by omega)]
      exact hdeg) shares
    (by
      intro j hj
      have hjp := List.mem_of_mem_take hj
      show ((getI shares j : Int) : ZMod G.q.natAbs) = F.eval (pt G.q (getN st.pts j))
      rcases s4 j hjp with h | ⟨_, _, bar, b1, b2, b3⟩
      · have : j = st.i := by simpa using h
        subst this
        rw [hsi]; exact hown
      · exact hoth j _ bar (hplt j hjp) b1 b2 b3)
  rw [hv] at hv'
  cases hv'
  exact ⟨h0, h1, h2⟩

/-- step 1f: a party whose view is bound to `F` obtains `mu = F(0)` -/
theorem sign_mu_val (hG : ValidGrp G) (st st' : SSt) (I I' : Inbox) (ops : List Op) (hS : SignerSet G st)
    (F : Polynomial (ZMod G.q.natAbs)) (hB : BindsView G st 2 F)
    (h : doAct G (.shRead 0) st I = .ok (.go st' I' ops)) :
    0 ≤ st'.mu ∧ st'.mu < G.q ∧ ((st'.mu : Int) : ZMod G.q.natAbs) = F.eval 0 := by
  obtain ⟨parties, shares, mi, rp, hr, hlen, hv, _⟩ := shRead0_spec G st st' I I' ops h
  exact shares_val hG st 2 hS F hB I I' parties shares hr hlen _ hv

/-- step 2f: a party whose view is bound to `F` obtains `s = F(0)` -/
theorem sign_s_val (hG : ValidGrp G) (st st' : SSt) (I I' : Inbox) (ops : List Op) (hS : SignerSet G st)
    (F : Polynomial (ZMod G.q.natAbs)) (hB : BindsView G st 4 F)
    (h : doAct G (.shRead 1) st I = .ok (.done st' I' ops true)) :
    0 ≤ st'.s ∧ st'.s < G.q ∧ ((st'.s : Int) : ZMod G.q.natAbs) = F.eval 0 := by
  obtain ⟨parties, shares, hr, hlen, hv, _⟩ := shRead1_spec G st st' I I' ops h
  exact shares_val hG st 4 hS F hB I I' parties shares hr hlen _ hv

/-- **agreement on `mu` and `r`**: two parties whose views of the sharing of `mu` are bound to the same
    polynomial and that hold the same `a_dkg->y` obtain the same `mu` and the same `r` -/
theorem sign_mu_agree (hG : ValidGrp G) (st1 st1' st2 st2' : SSt) (I1 I1' I2 I2' : Inbox) (ops1 ops2 : List Op)
    (hS1 : SignerSet G st1) (hS2 : SignerSet G st2)
    (F : Polynomial (ZMod G.q.natAbs)) (hB1 : BindsView G st1 2 F) (hB2 : BindsView G st2 2 F)
    (hy : st1.ag.y = st2.ag.y)
    (h1 : doAct G (.shRead 0) st1 I1 = .ok (.go st1' I1' ops1))
    (h2 : doAct G (.shRead 0) st2 I2 = .ok (.go st2' I2' ops2)) :
    st1'.mu = st2'.mu ∧ st1'.r = st2'.r := by
  have hq : 0 < G.q := hG.vg.q_pos
  obtain ⟨a0, a1, a2⟩ := sign_mu_val hG st1 st1' I1 I1' ops1 hS1 F hB1 h1
  obtain ⟨b0, b1, b2⟩ := sign_mu_val hG st2 st2' I2 I2' ops2 hS2 F hB2 h2
  have hmu : st1'.mu = st2'.mu := eq_of_cast_eq hq ⟨a0, a1⟩ ⟨b0, b1⟩ (a2.trans b2.symm)
  refine ⟨hmu, ?_⟩
  obtain ⟨_, _, mi1, rp1, _, _, _, hi1, hp1, hr1, _⟩ := shRead0_spec G st1 st1' I1 I1' ops1 h1
  obtain ⟨_, _, mi2, rp2, _, _, _, hi2, hp2, hr2, _⟩ := shRead0_spec G st2 st2' I2 I2' ops2 h2
  rw [hmu, hi2] at hi1
  cases hi1
  rw [hy, hp2] at hp1
  cases hp1
  rw [hr1, hr2]

/-- **agreement on `s`** -/
theorem sign_s_agree (hG : ValidGrp G) (st1 st1' st2 st2' : SSt) (I1 I1' I2 I2' : Inbox) (ops1 ops2 : List Op)
    (hS1 : SignerSet G st1) (hS2 : SignerSet G st2)
    (F : Polynomial (ZMod G.q.natAbs)) (hB1 : BindsView G st1 4 F) (hB2 : BindsView G st2 4 F)
    (h1 : doAct G (.shRead 1) st1 I1 = .ok (.done st1' I1' ops1 true))
    (h2 : doAct G (.shRead 1) st2 I2 = .ok (.done st2' I2' ops2 true)) :
    st1'.s = st2'.s ∧ st1'.r = st1.r ∧ st2'.r = st2.r := by
  have hq : 0 < G.q := hG.vg.q_pos
  obtain ⟨a0, a1, a2⟩ := sign_s_val hG st1 st1' I1 I1' ops1 hS1 F hB1 h1
  obtain ⟨b0, b1, b2⟩ := sign_s_val hG st2 st2' I2 I2' ops2 hS2 F hB2 h2
  obtain ⟨_, _, _, _, _, hr1, _⟩ := shRead1_spec G st1 st1' I1 I1' ops1 h1
  obtain ⟨_, _, _, _, _, hr2, _⟩ := shRead1_spec G st2 st2' I2 I2' ops2 h2
  exact ⟨eq_of_cast_eq hq ⟨a0, a1⟩ ⟨b0, b1⟩ (a2.trans b2.symm), hr1, hr2⟩

/-- **validity**: let a party pass step 1f/1g from `sa` to `sa'` and complete step 2f from `sb` to `sb'`
    with the `r` of step 1g (`sb.r = sa'.r`).  If its `mu` is `k·a` and `a_dkg->y = g^a` (what the sharing of
    `mu = Σ λ_j k_j a_j` over `2t+1` signers amounts to), its `s` is `k·(m + x·r)` and `y = g^x`, and
    `r, s ≠ 0`, then the model of the library's verifier accepts `(r, s)` on the message under `y`. -/
theorem sign_final_valid (hG : ValidGrp G) (sa sa' sb sb' : SSt) (Ia Ia' Ib Ib' : Inbox) (opsa opsb : List Op)
    (x k a y : Int)
    (h1 : doAct G (.shRead 0) sa Ia = .ok (.go sa' Ia' opsa))
    (h2 : doAct G (.shRead 1) sb Ib = .ok (.done sb' Ib' opsb true))
    (hr : sb.r = sa'.r) (hmsg : sb.msg = sa.msg)
    (hy : cp G y = cp G G.g ^ x)
    (hay : cp G sa.ag.y = cp G G.g ^ a)
    (hmu : sa'.mu ≡ k * a [ZMOD G.q])
    (hmu0 : ¬ sa'.mu ≡ 0 [ZMOD G.q])
    (hs : sb'.s ≡ k * (sa.msg + x * sb'.r) [ZMOD G.q])
    (hr0 : 0 < sb'.r) (hs0 : 0 < sb'.s) (hs1 : sb'.s < G.q) :
    Tsig.dssVerify (gGrp G) y sa.msg sb'.r sb'.s = .ok true := by
  obtain ⟨_, _, mi, rp, _, _, _, hinv, hrp, hra, _⟩ := shRead0_spec G sa sa' Ia Ia' opsa h1
  obtain ⟨_, _, _, _, _, hrb, _⟩ := shRead1_spec G sb sb' Ib Ib' opsb h2
  have : Fact (Nat.Prime (gGrp G).p.natAbs) := ‹Fact (Nat.Prime G.p.natAbs)›
  have hrr : sb'.r = rp % (gGrp G).q := by rw [hrb, hr, hra]; rfl
  exact Tmcg.CgjkrSignP.sign_dssVerify_code (G := gGrp G) hG.vg x k a sa'.mu mi sa.msg sb'.r sb'.s y sa.ag.y rp
    hy hay hmu hinv hmu0 hrp hrr hs hr0 hs0 hs1

end Tmcg.CgjkrSignRunP
