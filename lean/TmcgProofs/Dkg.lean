import TmcgProofs.DkgArith
import TmcgProofs.DkgLagrange
/-
  C15, protocol layer (model: Tmcg/Model/Dkg.lean).

  Proved here (on top of DkgArith / DkgLagrange):
    * `sumMod_val`                  x_i = Σ_{j ∈ QUAL} s_ji mod q
    * `viOf_val`                    v_j = ∏_{i ∈ QUAL} ∏_k A_ik^((j+1)^k)
    * `share_matches_vk`            g^{x_i} = v_i whenever equation (5) holds for every dealer in QUAL
    * `vss_reconstruct_honest`      Lagrange reconstruction from any t+1 shares of an honest dealer
                                    returns the dealer's secret
    * `interpolate_secret`          any t+1 shares x_i = Σ_j f_j(i+1) interpolate to x = Σ_j f_j(0), and
                                    g^x = ∏_j g^{f_j(0)} = y
    * `vssRecv1_honest_dealer`      an honest dealer's messages raise no complaint (step level)
    * `genCheck4_ok_of_honest`      the same for step 1(b) of the key generation
  The global agreement theorems `qual_agree'`, `honest_in_qual'` are in TmcgProofs/DkgAgree.lean;
  the step-function layer of the key generation in TmcgProofs/DkgSteps.lean; the signing algebra in
  TmcgProofs/DkgSign.lean.  Open: `key_agree` (needs a binding hypothesis, see the notes below).
-/
namespace Tmcg.DkgP
open Tmcg Tmcg.Powm Tmcg.Dkg Tmcg.Grp Tmcg.DkgL

variable {G : Dkg.Grp} [Fact (Nat.Prime G.p.natAbs)]

set_option linter.unusedSectionVars false

/-! ### the share and the verification keys -/

/-! auxiliary facts (prefixed `pl_`) -/

theorem pl_g_unit (hG : ValidGrp G) : cp G G.g ≠ 0 :=
  @g_ne_zero (gGrp G) ‹Fact (Nat.Prime G.p.natAbs)› hG.vg

theorem pl_h_unit (hG : ValidGrp G) : cp G G.h ≠ 0 :=
  @g_ne_zero (hGrp G) ‹Fact (Nat.Prime G.p.natAbs)› hG.vh

theorem pl_g_pow_q (hG : ValidGrp G) : cp G G.g ^ G.q.natAbs = 1 :=
  @g_pow_q (gGrp G) ‹Fact (Nat.Prime G.p.natAbs)› hG.vg

theorem pl_h_pow_q (hG : ValidGrp G) : cp G G.h ^ G.q.natAbs = 1 :=
  @g_pow_q (hGrp G) ‹Fact (Nat.Prime G.p.natAbs)› hG.vh

theorem pl_one_lt_p (hG : ValidGrp G) : (1 : Int) < G.p :=
  @one_lt_p (gGrp G) ‹Fact (Nat.Prime G.p.natAbs)› hG.vg

theorem pl_fspowm_g (hG : ValidGrp G) (s : Int) (hs : s.natAbs < G.q.natAbs) :
    ∃ r, fspowm G.tabG G.g s G.p = .ok r ∧ 0 ≤ r ∧ r < G.p ∧ cp G r = cp G G.g ^ s :=
  @fspowm_val (gGrp G) ‹Fact (Nat.Prime G.p.natAbs)› hG.vg G.tabG G.g s hG.tg (pl_g_unit hG) hs

omit [Fact (Nat.Prime G.p.natAbs)] in
theorem pl_natAbs_lt {q c : Int} (h : 0 ≤ c ∧ c < q) : c.natAbs < q.natAbs := by
  omega

omit [Fact (Nat.Prime G.p.natAbs)] in
theorem pl_sumMod_aux (hq : 0 < G.q) (l : List Int) (idx : List Nat) (acc : Int)
    (hacc : 0 ≤ acc ∧ acc < G.q) :
    cq G (idx.foldl (fun acc j => (acc + getI l j) % G.q) acc) =
      cq G acc + (idx.map (fun j => cq G (getI l j))).sum ∧
    0 ≤ idx.foldl (fun acc j => (acc + getI l j) % G.q) acc ∧
    idx.foldl (fun acc j => (acc + getI l j) % G.q) acc < G.q := by
  induction idx generalizing acc with
  | nil => simpa using hacc
  | cons j rest ih =>
    simp only [List.foldl_cons, List.map_cons, List.sum_cons]
    obtain ⟨h1, h2⟩ := ih ((acc + getI l j) % G.q)
      ⟨Int.emod_nonneg _ (ne_of_gt hq), Int.emod_lt_of_pos _ hq⟩
    refine ⟨?_, h2⟩
    rw [h1, cq_emod hq, cq_add]
    ring

/-- `x_i = Σ_{j ∈ QUAL} s_ji mod q`, reduced -/
theorem sumMod_val (hq : 0 < G.q) (l : List Int) (idx : List Nat) :
    cq G (sumMod G.q l idx) = (idx.map (fun j => cq G (getI l j))).sum ∧
    0 ≤ sumMod G.q l idx ∧ sumMod G.q l idx < G.q := by
  have h   := pl_sumMod_aux hq l idx 0 ⟨le_refl _, hq⟩
  rw [cq_zero, zero_add] at h
  exact h

theorem pl_viOf_aux (hG : ValidGrp G) (qual : List Nat) (A : List (List Int)) (jt : Nat)
    (hA : ∀ j ∈ qual, ∀ c ∈ getRow A j, cp G c ≠ 0) (acc : Int) (hacc : 0 ≤ acc ∧ acc < G.p) :
    ∃ v, qual.foldlM (fun (acc : Int) it => commitProdFrom G.p (jt + 1) 0 (getRow A it) acc) acc = .ok v ∧
      0 ≤ v ∧ v < G.p ∧
      cp G v = cp G acc *
        (qual.map (fun it => powProdFrom (jt + 1) 0 ((getRow A it).map (cp G)))).prod := by
  induction qual generalizing acc with
  | nil => exact ⟨acc, rfl, hacc.1, hacc.2, by simp⟩
  | cons j rest ih =>
    obtain ⟨r, hr, hr0, hr1, hrv⟩ := commitProdFrom_val hG (jt + 1) 0 (getRow A j) acc
      (hA j (by simp)) hacc
    obtain ⟨v, hv, hv0, hv1, hvv⟩ := ih (fun j hj => hA j (List.mem_cons_of_mem _ hj)) r ⟨hr0, hr1⟩
    refine ⟨v, ?_, hv0, hv1, ?_⟩
    · simp only [List.foldlM_cons, hr]
      exact hv
    · rw [hvv, hrv]
      simp only [List.map_cons, List.prod_cons]
      ring

/-- the public verification key of party `jt` is the product over QUAL of the Feldman
    commitments evaluated "in the exponent" at `jt + 1` -/
theorem viOf_val (hG : ValidGrp G) (qual : List Nat) (A : List (List Int)) (jt : Nat)
    (hA : ∀ j ∈ qual, ∀ c ∈ getRow A j, cp G c ≠ 0) :
    ∃ v, viOf G qual A jt = .ok v ∧ 0 ≤ v ∧ v < G.p ∧
      cp G v = (qual.map (fun it => powProdFrom (jt + 1) 0 ((getRow A it).map (cp G)))).prod := by
  have h1 : (1 : Int) < G.p := pl_one_lt_p hG
  have h := pl_viOf_aux hG qual A jt hA 1 ⟨by norm_num, h1⟩
  rw [cp_one, one_mul] at h
  exact h

omit [Fact (Nat.Prime G.p.natAbs)] in
theorem pl_cq_listSum (l : List Int) : cq G l.sum = (l.map (cq G)).sum := by
  induction l with
  | nil => simp [cq_zero]
  | cons a l ih => simp only [List.sum_cons, List.map_cons, cq_add, ih]

theorem pl_g_zpow_listSum (hG : ValidGrp G) (l : List Int) :
    cp G G.g ^ l.sum = (l.map (fun e => cp G G.g ^ e)).prod := by
  induction l with
  | nil => simp
  | cons a l ih => simp only [List.sum_cons, List.map_cons, List.prod_cons, zpow_add₀ (pl_g_unit hG), ih]

/-- "each honest party's share matches the public verification values": if equation (5) holds for
    the share party `i` holds from every dealer in QUAL, then `g^{x_i} = v_i` — the first test of
    `CheckKey()` succeeds -/
theorem share_matches_vk (hG : ValidGrp G) (qual : List Nat) (A : List (List Int)) (s : List Int) (i : Nat)
    (hA : ∀ j ∈ qual, ∀ c ∈ getRow A j, cp G c ≠ 0)
    (h5 : ∀ j ∈ qual, cp G G.g ^ (getI s j) = powProdFrom (i + 1) 0 ((getRow A j).map (cp G))) :
    ∃ v r, viOf G qual A i = .ok v ∧ fspowm G.tabG G.g (sumMod G.q s qual) G.p = .ok r ∧ r = v := by
  obtain ⟨v, hv, hv0, hv1, hvv⟩ := viOf_val hG qual A i hA
  obtain ⟨hs, hs0, hs1⟩ := sumMod_val (G := G) hG.vg.q_pos s qual
  obtain ⟨r, hr, hr0, hr1, hrv⟩ := pl_fspowm_g hG (sumMod G.q s qual) (pl_natAbs_lt ⟨hs0, hs1⟩)
  refine ⟨v, r, hv, hr, cp_inj hG ⟨hr0, hr1⟩ ⟨hv0, hv1⟩ ?_⟩
  rw [hrv, hvv]
  have hc : cq G (sumMod G.q s qual) = cq G ((qual.map (fun j => getI s j)).sum) := by
    rw [hs, pl_cq_listSum, List.map_map]
    rfl
  rw [g_zpow_congr hG _ _ hc, pl_g_zpow_listSum hG, List.map_map]
  congr 1
  apply List.map_congr_left
  intro j hj
  exact h5 j hj

/-! ### reconstruction -/

variable [Fact (Nat.Prime G.q.natAbs)]

/-- the shares an honest dealer computes lie on the polynomial with its coefficients -/
theorem evalShare_on_poly (hq : 0 < G.q) (a : List Int) (j : Nat) :
    ((evalShare G.q a (j + 1) : Int) : ZMod G.q.natAbs) =
      (polyOf (a.map (cq G))).eval (pt G.q j) := by
  rw [polyOf_eval]
  have h := (evalShare_val G hq a (j + 1)).1
  have e : ((j + 1 : Nat) : Fq G) = pt G.q j := by
    unfold pt; push_cast; rfl
  rw [e] at h
  exact h

theorem pl_polyEvalFrom_zero {R : Type} [CommRing R] (k : Nat) (cs : List R) :
    polyEvalFrom (0 : R) (k + 1) cs = 0 := by
  induction cs generalizing k with
  | nil => simp [polyEvalFrom]
  | cons c cs ih => simp [polyEvalFrom, ih]

theorem pl_polyOf_eval_zero {R : Type} [CommRing R] (c : R) (cs : List R) :
    (polyOf (c :: cs)).eval 0 = c := by
  rw [polyOf_eval]
  simp [polyEval, polyEvalFrom, pl_polyEvalFrom_zero]

/-- "for dealer-based sharing: the dealer's secret, which reconstruction also returns": Lagrange
    reconstruction (`PedersenVSS::Reconstruct`) from ANY `t+1` distinct parties' shares of an honest
    dealer with coefficients `a = [σ, a_1, …, a_t]` returns `σ mod q` -/
theorem vss_reconstruct_honest (hG : ValidGrp G) (a : List Int) (parties : List Nat)
    (hp : GoodParties G.q parties) (hlen : parties.length = a.length) (hne : a ≠ []) :
    lagrange0 G.q parties (fun j => evalShare G.q a (j + 1)) = some (a.headD 0 % G.q) := by
  have hq : 0 < G.q := hG.vg.q_pos
  cases a with
  | nil => exact absurd rfl hne
  | cons a0 as =>
    have hf : (polyOf ((a0 :: as).map (cq G))).degree < (parties.length : WithBot Nat) := by
      have := polyOf_degree_lt ((a0 :: as).map (cq G))
      rw [List.length_map, ← hlen] at this
      exact this
    obtain ⟨v, hv, hv0, hv1, hvv⟩ := lagrange0_val (q := G.q) hq parties hp
      (polyOf ((a0 :: as).map (cq G))) hf (fun j => evalShare G.q (a0 :: as) (j + 1))
      (fun j _ => evalShare_on_poly hq (a0 :: as) j)
    rw [hv]
    congr 1
    refine eq_of_cast_eq (q := G.q) hq ⟨hv0, hv1⟩ (DkgL.emod_bounds hq a0) ?_
    rw [hvv, List.map_cons, pl_polyOf_eval_zero, DkgL.cast_emod hq]
    rfl

theorem pl_listSum_poly {R : Type} [CommRing R] (qual : List Nat) (f : Nat → Polynomial R) (t : Nat)
    (hf : ∀ j ∈ qual, (f j).degree < (t + 1 : Nat)) :
    ((qual.map f).sum).degree < (t + 1 : Nat) ∧
      ∀ x, ((qual.map f).sum).eval x = (qual.map (fun j => (f j).eval x)).sum := by
  induction qual with
  | nil =>
    refine ⟨?_, fun x => by simp⟩
    simp only [List.map_nil, List.sum_nil, Polynomial.degree_zero]
    exact WithBot.bot_lt_coe _
  | cons j rest ih =>
    obtain ⟨h1, h2⟩ := ih (fun j hj => hf j (List.mem_cons_of_mem _ hj))
    refine ⟨?_, fun x => ?_⟩
    · simp only [List.map_cons, List.sum_cons]
      exact lt_of_le_of_lt (Polynomial.degree_add_le _ _) (max_lt (hf j (by simp)) h1)
    · simp only [List.map_cons, List.sum_cons, Polynomial.eval_add, h2]

/-- "any t+1 honest shares interpolate to one and the same secret whose public image is that key":
    for dealer polynomials `f_j` (`j ∈ QUAL`) of degree `≤ t`, shares `x_i = Σ_j f_j(i+1)` of any
    `t+1` distinct parties interpolate to `x = Σ_j f_j(0)`, and `g^x = ∏_j g^{f_j(0)}`, which is `y`
    when the published `A_j0` are `g^{f_j(0)}` -/
theorem interpolate_secret (hG : ValidGrp G) (qual : List Nat) (t : Nat)
    (f : Nat → Polynomial (ZMod G.q.natAbs)) (hf : ∀ j ∈ qual, (f j).degree < (t + 1 : Nat))
    (parties : List Nat) (hp : GoodParties G.q parties) (hlen : parties.length = t + 1)
    (x : Nat → Int)
    (hx : ∀ i ∈ parties, ((x i : Int) : ZMod G.q.natAbs) = (qual.map (fun j => (f j).eval (pt G.q i))).sum)
    (z : Nat → Int) (hz : ∀ j ∈ qual, ((z j : Int) : ZMod G.q.natAbs) = (f j).eval 0) :
    ∃ v, lagrange0 G.q parties x = some v ∧
      ((v : Int) : ZMod G.q.natAbs) = (qual.map (fun j => (f j).eval 0)).sum ∧
      cp G G.g ^ v = (qual.map (fun j => cp G G.g ^ (z j))).prod := by
  have hq : 0 < G.q := hG.vg.q_pos
  obtain ⟨hd, he⟩ := pl_listSum_poly qual f t hf
  rw [← hlen] at hd
  obtain ⟨v, hv, hv0, hv1, hvv⟩ := lagrange0_val (q := G.q) hq parties hp
    ((qual.map f).sum) hd x (fun i hi => by rw [hx i hi, he])
  refine ⟨v, hv, by rw [hvv, he], ?_⟩
  have hc : cq G v = cq G ((qual.map z).sum) := by
    rw [pl_cq_listSum, List.map_map]
    show ((v : Int) : ZMod G.q.natAbs) = _
    rw [hvv, he]
    congr 1
    apply List.map_congr_left
    intro j hj
    exact (hz j hj).symm
  rw [g_zpow_congr hG _ _ hc, pl_g_zpow_listSum hG, List.map_map]
  rfl

/-- the secret does not depend on which `t+1` parties reconstruct -/
theorem interpolate_secret_unique (hG : ValidGrp G) (qual : List Nat) (t : Nat)
    (f : Nat → Polynomial (ZMod G.q.natAbs)) (hf : ∀ j ∈ qual, (f j).degree < (t + 1 : Nat))
    (P1 P2 : List Nat) (h1 : GoodParties G.q P1) (h2 : GoodParties G.q P2)
    (hl1 : P1.length = t + 1) (hl2 : P2.length = t + 1) (x : Nat → Int)
    (hx1 : ∀ i ∈ P1, ((x i : Int) : ZMod G.q.natAbs) = (qual.map (fun j => (f j).eval (pt G.q i))).sum)
    (hx2 : ∀ i ∈ P2, ((x i : Int) : ZMod G.q.natAbs) = (qual.map (fun j => (f j).eval (pt G.q i))).sum) :
    ∃ v, lagrange0 G.q P1 x = some v ∧ lagrange0 G.q P2 x = some v := by
  have hq : 0 < G.q := hG.vg.q_pos
  obtain ⟨hd, he⟩ := pl_listSum_poly qual f t hf
  exact lagrange0_unique (q := G.q) hq P1 P2 h1 h2 ((qual.map f).sum)
    (by rw [hl1]; exact hd) (by rw [hl2]; exact hd) x
    (fun i hi => by rw [hx1 i hi, he]) (fun i hi => by rw [hx2 i hi, he])

/-! ### step functions on honest input -/

/-- `Dkg.checkElement` is the Schnorr-group test of the other classes -/
theorem checkElement_eq (a : Int) :
    Dkg.checkElement G a = Sigma.checkElement .schnorr (gGrp G) a := by
  unfold Dkg.checkElement Sigma.checkElement
  rfl

/-- `Dkg.checkElement` decides membership in the subgroup of order `q` -/
theorem pl_checkElement_iff (hG : ValidGrp G) (a : Int) :
    Dkg.checkElement G a = true ↔ (0 < a ∧ a < G.p ∧ cp G a ^ G.q.natAbs = 1) := by
  rw [checkElement_eq]
  exact @checkElement_iff (gGrp G) ‹Fact (Nat.Prime G.p.natAbs)› hG.vg a

theorem pl_checkElement_of_val (hG : ValidGrp G) (c x y : Int) (h0 : 0 ≤ c) (h1 : c < G.p)
    (hv : cp G c = cp G G.g ^ x * cp G G.h ^ y) : Dkg.checkElement G c = true := by
  rw [pl_checkElement_iff hG]
  have hne : cp G c ≠ 0 := by
    rw [hv]
    exact mul_ne_zero (zpow_ne_zero _ (pl_g_unit hG)) (zpow_ne_zero _ (pl_h_unit hG))
  refine ⟨?_, h1, ?_⟩
  · rcases lt_or_eq_of_le h0 with h | h
    · exact h
    · exfalso
      apply hne
      rw [← h]
      unfold cp
      simp
  · rw [hv, mul_pow, ← zpow_natCast (cp G G.g ^ x), ← zpow_natCast (cp G G.h ^ y), ← zpow_mul,
      ← zpow_mul, mul_comm x, mul_comm y, zpow_mul, zpow_mul, zpow_natCast, zpow_natCast,
      pl_g_pow_q hG, pl_h_pow_q hG, one_zpow, one_zpow, one_mul]

theorem pl_checkElement_unit (hG : ValidGrp G) (c : Int) (h : Dkg.checkElement G c = true) :
    cp G c ≠ 0 := by
  have h3 := ((pl_checkElement_iff hG c).mp h).2.2
  intro h0
  have hq : 0 < G.q := hG.vg.q_pos
  rw [h0, zero_pow (by omega)] at h3
  exact zero_ne_one h3

/-- the commitments of an honest dealer pass `CheckElement` -/
theorem commit_checkElement (hG : ValidGrp G) (a b : Int) (ha : 0 ≤ a ∧ a < G.q) (hb : 0 ≤ b ∧ b < G.q)
    (ga l : Int) (h : pedS G a b = .ok (ga, l)) : Dkg.checkElement G l = true := by
  obtain ⟨ga', l', hp, -, -, hl0, hl1, -, hlv⟩ := pedS_val hG a b (pl_natAbs_lt ha) (pl_natAbs_lt hb)
  rw [h] at hp
  injection hp with hp
  injection hp with hp1 hp2
  subst hp2
  exact pl_checkElement_of_val hG l a b hl0 hl1 hlv

/-- the inbox of a receiver that holds exactly what an honest dealer sent in its first step -/
def honestDealerInbox (n dealer : Nat) (A : List Int) (σ τ : Int) (I : Inbox) : Prop :=
  I.b.getD dealer [] = A.map (fun v => ((none : Tag), v)) ∧ I.p.getD dealer [] = [σ, τ] ∧
  dealer < I.b.length ∧ dealer < I.p.length ∧ n = I.b.length

theorem pl_popB_none (I : Inbox) (d : Nat) (v : Int) (r : List (Tag × Int))
    (h : I.b.getD d [] = ((none : Tag), v) :: r) :
    I.popB none d = (some v, { I with b := I.b.set d r }) := by
  unfold Inbox.popB
  rw [h]
  simp [removeFirst]

theorem pl_vssReadA (d : Nat) (A : List Int) :
    ∀ (I : Inbox) (acc : List Int) (rest : List (Tag × Int)),
      I.b.getD d [] = A.map (fun v => ((none : Tag), v)) ++ rest → d < I.b.length →
      vssReadA d A.length I acc = (false, { I with b := I.b.set d rest }, acc ++ A) := by
  induction A with
  | nil =>
    intro I acc rest h hd
    have : I.b.set d rest = I.b := by
      have h' : rest = I.b[d] := by
        rw [← List.getD_eq_getElem _ [] hd, h]; rfl
      rw [h']
      simp
    simp [vssReadA, this]
  | cons v A ih =>
    intro I acc rest h hd
    have hp := pl_popB_none I d v (A.map (fun v => ((none : Tag), v)) ++ rest) (by simpa using h)
    simp only [List.length_cons, vssReadA, hp]
    rw [ih _ (acc ++ [v]) rest (by simp [hd]) (by simpa using hd)]
    simp

theorem pl_popP (I : Inbox) (d : Nat) (v : Int) (r : List Int) (h : I.p.getD d [] = v :: r) :
    I.popP d = (some v, { I with p := I.p.set d r }) := by
  unfold Inbox.popP
  rw [h]

theorem pl_vssRhs (x : Nat) (cs : List Int) (hcs : ∀ c ∈ cs, Dkg.checkElement G c = true) :
    ∀ (k : Nat) (acc : Int),
      vssRhs G x k cs acc = (commitProdFrom G.p x k cs acc).map (fun r => (false, r)) := by
  induction cs with
  | nil => intro k acc; rfl
  | cons c cs ih =>
    intro k acc
    simp only [vssRhs, hcs c (by simp), Bool.not_true, Bool.false_eq_true, if_false, commitProdFrom]
    cases mpzPowm c ((x : Int) ^ k) G.p with
    | error e => rfl
    | ok b => exact ih (fun c hc => hcs c (List.mem_cons_of_mem _ hc)) (k + 1) _

theorem pl_popWeak (st : VssSt) :
    (popWeak st).2.n = st.n ∧ (popWeak st).2.t = st.t ∧ (popWeak st).2.i = st.i ∧
    (popWeak st).2.dealer = st.dealer ∧ (popWeak st).2.sfb = st.sfb := by
  unfold popWeak
  split <;> simp

/-- the receiver's first step on an inbox holding `t+1` group elements and a pair in range -/
theorem pl_vssRecv1_run (st0 : VssSt) (I : Inbox) (A : List Int) (σ τ : Int)
    (hAlen : A.length = st0.t + 1) (hAel : ∀ c ∈ A, Dkg.checkElement G c = true)
    (hσ : σ.natAbs < G.q.natAbs) (hτ : τ.natAbs < G.q.natAbs) (hsfb : st0.sfb = false)
    (hI : honestDealerInbox st0.n st0.dealer A σ τ I)
    (ga l r : Int) (hped : pedS G σ τ = .ok (ga, l))
    (hprod : commitProdFrom G.p (st0.i + 1) 0 A 1 = .ok r) :
    ∃ st' I', vssRecv1 G st0 I =
        .ok (st', I', (if (l != r) = true then [Op.bc none (st0.dealer : Int)] else []) ++
          [Op.bc none (st0.n : Int)], .run) ∧
      st'.sigma_i = σ ∧ st'.tau_i = τ ∧ st'.A = A ∧ st'.cc = if (l != r) = true then 1 else 0 := by
  obtain ⟨hb, hp, hdb, hdp, hn⟩ := hI
  obtain ⟨e1, e2, e3, e4, e5⟩ := pl_popWeak st0
  rcases hpw : popWeak st0 with ⟨r1, st⟩
  rw [hpw] at e1 e2 e3 e4 e5
  simp only at e1 e2 e3 e4 e5
  have hread : vssReadA st.dealer (st.t + 1) I [] =
      (false, { I with b := I.b.set st0.dealer [] }, A) := by
    have := pl_vssReadA st0.dealer A I [] [] (by simpa using hb) hdb
    rw [hAlen] at this
    rw [e2, e4, this]
    simp
  have hp1 : ({ I with b := I.b.set st0.dealer [] } : Inbox).popP st.dealer =
      (some σ, { b := I.b.set st0.dealer [], p := I.p.set st0.dealer [τ] }) := by
    rw [e4]
    exact pl_popP _ _ σ [τ] hp
  have hp2 : ({ b := I.b.set st0.dealer [], p := I.p.set st0.dealer [τ] } : Inbox).popP st.dealer =
      (some τ, { b := I.b.set st0.dealer [], p := (I.p.set st0.dealer [τ]).set st0.dealer [] }) := by
    rw [e4]
    exact pl_popP _ _ τ [] (by simp [hdp])
  have ha1 : absGe σ G.q = false := by simp [absGe, hσ]
  have ha2 : absGe τ G.q = false := by simp [absGe, hτ]
  have hrhs : vssRhs G (st0.i + 1) 0 A 1 = .ok (false, r) := by
    rw [pl_vssRhs _ A hAel, hprod]
    rfl
  unfold vssRecv1
  simp only [hpw, hread, hp1, hp2, ha1, ha2, hAlen]
  simp only [Bool.false_eq_true, if_false, e1, e2, e3, e4, e5,
    hsfb, Nat.sub_self, List.replicate_zero, List.append_nil, hped, hrhs, bind, Except.bind, pure,
    Except.pure, Bool.false_and, Bool.false_or, Bool.or_false, Nat.add_zero]
  exact ⟨_, _, rfl, rfl, rfl, rfl, rfl⟩

/-- completeness of `Share` (receiver, first step): the commitments and the share of an honest
    dealer raise no complaint; the receiver stores the share and broadcasts only the end marker -/
theorem vssRecv1_honest_dealer (hG : ValidGrp G) (st : VssSt) (I : Inbox) (a b A : List Int)
    (hlen : a.length = st.t + 1) (hlenb : b.length = st.t + 1)
    (ha : ∀ c ∈ a, 0 ≤ c ∧ c < G.q) (hb : ∀ c ∈ b, 0 ≤ c ∧ c < G.q)
    (hA : commitList G a b = .ok A) (hsfb : st.sfb = false)
    (hI : honestDealerInbox st.n st.dealer A (evalShare G.q a (st.i + 1)) (evalShare G.q b (st.i + 1)) I) :
    ∃ st' I', vssRecv1 G st I = .ok (st', I', [Op.bc none (st.n : Int)], .run) ∧
      st'.sigma_i = evalShare G.q a (st.i + 1) ∧ st'.tau_i = evalShare G.q b (st.i + 1) ∧
      st'.A = A ∧ st'.cc = 0 := by
  have hq : 0 < G.q := hG.vg.q_pos
  have hab : a.length = b.length := hlen.trans hlenb.symm
  obtain ⟨C, hC, hCl, hCv⟩ := commitList_val hG a b hab ha hb
  rw [hA] at hC
  injection hC with hC
  subst hC
  have hAel : ∀ c ∈ A, Dkg.checkElement G c = true := by
    intro c hc
    obtain ⟨k, hk, rfl⟩ := List.getElem_of_mem hc
    obtain ⟨h0, h1, hv⟩ := hCv k (by omega)
    rw [List.getD_eq_getElem _ _ hk] at h0 h1 hv
    exact pl_checkElement_of_val hG _ _ _ h0 h1 hv
  obtain ⟨ga, l, r, hped, hprod, hlr⟩ := share_check hG a b hab ha hb A hA (st.i + 1)
  have hs := (evalShare_val G hq a (st.i + 1)).2
  have ht := (evalShare_val G hq b (st.i + 1)).2
  obtain ⟨st', I', hrun, h1, h2, h3, h4⟩ := pl_vssRecv1_run st I A _ _ (by omega) hAel
    (pl_natAbs_lt hs) (pl_natAbs_lt ht) hsfb hI ga l r hped hprod
  have hb : (l != r) = false := by simp [hlr]
  refine ⟨st', I', ?_, h1, h2, h3, ?_⟩
  · rw [hrun, hb]
    rfl
  · rw [h4, hb]
    rfl

/-- soundness of the receiver's check, first step: a pair in range that does not open the received
    commitments (all of them group elements) makes the receiver broadcast a complaint against the
    dealer — "a dealer who hands out shares inconsistent with its commitments" is complained about -/
theorem vssRecv1_complains (hG : ValidGrp G) (st : VssSt) (I : Inbox) (A : List Int) (σ τ : Int)
    (hAlen : A.length = st.t + 1) (hAel : ∀ c ∈ A, Dkg.checkElement G c = true)
    (hσ : σ.natAbs < G.q.natAbs) (hτ : τ.natAbs < G.q.natAbs) (hsfb : st.sfb = false)
    (hI : honestDealerInbox st.n st.dealer A σ τ I)
    (hbad : cp G G.g ^ σ * cp G G.h ^ τ ≠ powProdFrom (st.i + 1) 0 (A.map (cp G))) :
    ∃ st' I', vssRecv1 G st I =
      .ok (st', I', [Op.bc none (st.dealer : Int), Op.bc none (st.n : Int)], .run) ∧ st'.cc = 1 := by
  obtain ⟨ga, l, hped, -, -, hl0, hl1, -, hlv⟩ := pedS_val hG σ τ hσ hτ
  obtain ⟨r, hprod, hr0, hr1, hrv⟩ := commitProd_val hG (st.i + 1) A
    (fun c hc => pl_checkElement_unit hG c (hAel c hc))
  have hne : l ≠ r := by
    intro h
    apply hbad
    rw [← hlv, ← hrv, h]
  obtain ⟨st', I', hrun, -, -, -, h4⟩ := pl_vssRecv1_run st I A σ τ hAlen hAel hσ hτ hsfb hI
    ga l r hped hprod
  have hb : (l != r) = true := by simpa using hne
  refine ⟨st', I', ?_, ?_⟩
  · rw [hrun, hb]
    rfl
  · rw [h4, hb]
    rfl

theorem pl_vssAnswers_ops (q : Int) (st : VssSt) (hsfb : st.sfb = false) (l : List Nat) (s : VssSt)
    (ops : List Op) :
    (vssAnswers q st l s ops).2 = ops ++ l.flatMap (fun (it : Nat) =>
      [Op.bc none (it : Int), Op.bc none (evalShare q st.a (it + 1)),
        Op.bc none (evalShare q st.b (it + 1))]) := by
  induction l generalizing s ops with
  | nil => simp [vssAnswers]
  | cons it rest ih =>
    simp only [vssAnswers, hsfb, Bool.false_and, Bool.false_eq_true, if_false]
    rw [ih]
    simp [evalShare]

/-- the dealer's side: more than `t` complaints end `Share` with `false` (the dealer is disqualified
    in its own eyes as well), otherwise every complainer's share is published, computed from the
    committed polynomials (hence consistent, `share_check_F`) -/
theorem vssDealCollect_spec (st : VssSt) (I : Inbox) (hsfb : st.sfb = false) :
    let r := vssDealCollect G st I
    let cf := (vssDealCollectGo st (List.range st.n) I []).2
    (st.t < cf.length → r.2.2.2 = .ret false ∧ r.2.2.1 = []) ∧
    (cf.length ≤ st.t → r.2.2.2 = .ret true ∧
      r.2.2.1 = cf.flatMap (fun (it : Nat) => [Op.bc none (it : Int), Op.bc none (evalShare G.q st.a (it + 1)),
                                        Op.bc none (evalShare G.q st.b (it + 1))])) := by
  rcases h : vssDealCollectGo st (List.range st.n) I [] with ⟨I1, cf⟩
  simp only [vssDealCollect, h]
  constructor
  · intro hlt
    rw [if_pos hlt]
    exact ⟨rfl, rfl⟩
  · intro hle
    rw [if_neg (by omega)]
    refine ⟨rfl, ?_⟩
    have := pl_vssAnswers_ops G.q st hsfb cf st []
    simpa using this

/-! ### global statements

  Notation: `R := runGen G n t ins`, party `i` is honest when `(ins[i]).dev1.honest`; at most `t`
  parties are not honest and `2 t < n`.

  Proof plan for `qual_agree` / `honest_in_qual` (view consistency): by induction over the rounds of
  `runRounds` show the invariant "for honest `i ≠ j` and every sender `k ∉ {i, j}` the unread
  broadcast values of `k` are the same lists in both inboxes, the public parts of their states
  (`C[k]`, `cnt`, `compl` restricted to entries ≠ own index, …) coincide, and what `j` reads from
  `i`'s stream are the values `i` holds locally".  `deliverAll` appends the same list to every
  inbox, every reader (`readElems`, `genReadComplaints`, `genReadAnswers`, `readElems` for `A`,
  `genReadExtract`) is a function of the stream and of public state only.  `honest_in_qual` then
  needs `share_check` / `share_check_F` (honest shares and answers verify) and the counting argument
  `#complaints against an honest party ≤ #faulty ≤ t`.

  `key_agree` and `share_matches_vk` for whole runs do NOT hold unconditionally in the model (and in
  the library), see the findings in the report of the harness (drv_dkg.cc):
    * a dealer that ignores a complaint in step 1(c) stays in QUAL, the complainer keeps a share that
      fails (4), so `g^{x_i} ≠ v_i` for an honest `i`  (tag `wrongshare-noanswer`);
    * one false extraction complaint per accused party forces the reconstruction of an honest
      party's contribution, `t+1` of them make `Reconstruct` (and `Generate`) return `false` for every
      honest party (tags `falseextract`, `manyextract`);
    * Pedersen commitments bind only computationally: the statement needs the hypothesis that no
      faulty party opens one of its commitments in two ways.
-/

/-- the parties that follow the protocol -/
def honestIdx (ins : List PartyIn) : List Nat :=
  (List.range ins.length).filter (fun i => ((ins.getD i ⟨[], [], {}, {}⟩).dev1.honest))

/-- coins of an honest party: enough draws, all below `q` (as `tmcg_mpz_srandomm` returns them) -/
def goodCoins (G : Dkg.Grp) (t : Nat) (pin : PartyIn) : Prop :=
  2 * (t + 1) ≤ pin.strong.length ∧ ∀ c ∈ pin.strong, 0 ≤ c ∧ c < G.q

/- The global agreement theorems are proved in TmcgProofs/DkgAgree.lean (which imports this file):
     `qual_agree'`      all honest parties compute the same set QUAL, for ALL scripts of the others
     `honest_in_qual'`  honest parties are never disqualified
   both under `n < 2 ^ 64` (the code reads party indices with `mpz_get_ui`; without the bound the end
   marker `n` is read as an index: `qual_agree_unbounded_false`, `honest_in_qual_unbounded_false`). -/

end Tmcg.DkgP
