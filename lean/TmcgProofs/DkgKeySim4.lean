import TmcgProofs.DkgKeySim3
/-
  C15, key agreement with reconstruction, part 4: step 4(c), the extraction complaints of one sender
  as a function of its stream (`rxS`), what is pushed on the reconstruction list, the loop over the
  senders.
-/
namespace Tmcg.DkgP
open Tmcg Tmcg.Powm Tmcg.Dkg Tmcg.Grp Tmcg.DkgL

variable {G : Dkg.Grp} [Fact (Nat.Prime G.p.natAbs)]

set_option linter.unusedSectionVars false

/-- `genReadExtract` on one stream: what is appended to the complaint list, the rest of the stream -/
def rxS (G : Grp) (n : Nat) (Cf Af : Nat → List Int) (Q : List Nat) (j : Nat) :
    Nat → List (Tag × Int) → Except Err (List Nat × List (Tag × Int))
  | 0, s => .ok ([], s)
  | f + 1, s =>
    match popS none s with
    | (none, s1) => .ok ([j], s1)
    | (some w, s1) =>
      if getUi w ≥ n then .ok ([], s1)
      else
        match popS none s1 with
        | (none, s2) => .ok ([j], s2)
        | (some foo0, s2) =>
          match popS none s2 with
          | (none, s3) => .ok ((if absGe foo0 G.q then [j] else []) ++ [j], s3)
          | (some bar0, s3) =>
            match fpowm G.tabG G.g (if absGe foo0 G.q then 0 else foo0) G.p with
            | .error e => .error e
            | .ok gfoo =>
              match fpowm G.tabH G.h (if absGe bar0 G.q then 0 else bar0) G.p with
              | .error e => .error e
              | .ok hbar =>
                match commitProd G.p (j + 1) (Cf (getUi w)) with
                | .error e => .error e
                | .ok rhs =>
                  if gfoo * hbar % G.p != rhs then
                    match rxS G n Cf Af Q j f s3 with
                    | .error e => .error e
                    | .ok r => .ok ((if absGe foo0 G.q then [j] else []) ++ (if absGe bar0 G.q then [j] else []) ++
                        [j] ++ r.1, r.2)
                  else
                    match commitProd G.p (j + 1) (Af (getUi w)) with
                    | .error e => .error e
                    | .ok rhs2 =>
                      match rxS G n Cf Af Q j f s3 with
                      | .error e => .error e
                      | .ok r => .ok ((if absGe foo0 G.q then [j] else []) ++ (if absGe bar0 G.q then [j] else []) ++
                          (if gfoo != rhs2 then (if Q.contains (getUi w) then [getUi w] else []) else [j]) ++ r.1,
                          r.2)

theorem kg_ite_cm (c : Bool) (cm : List Nat) (j : Nat) :
    (if c = true then cm ++ [j] else cm) = cm ++ (if c = true then [j] else []) := by
  cases c <;> simp

theorem kg_genReadExtract (st : GenSt) (j : Nat) (f : Nat) (I : Inbox) (hj : j < I.b.length) (cm : List Nat) :
    genReadExtract G st j f I cm =
      match rxS G st.n (getRow st.C) (getRow st.A) st.qual j f (bsOf I j) with
      | .ok r => .ok (setB I j r.2, cm ++ r.1)
      | .error e => .error e := by
  induction f generalizing I cm with
  | zero => simp [genReadExtract, rxS, ag_setB_self]
  | succ f ih =>
    unfold genReadExtract rxS
    rw [ag_popB]
    rcases hp1 : popS none (bsOf I j) with ⟨_ | w, s1⟩
    · rfl
    · simp only
      by_cases hw : getUi w ≥ st.n
      · simp only [hw, if_true]
        simp
      · simp only [hw, if_false]
        rw [ag_popB, ag_bsOf_setB_self I j s1 hj, ag_setB_setB]
        rcases hp2 : popS none s1 with ⟨_ | foo0, s2⟩
        · rfl
        · simp only
          rw [ag_popB, ag_bsOf_setB_self I j s2 hj, ag_setB_setB]
          rcases hp3 : popS none s2 with ⟨_ | bar0, s3⟩
          · simp only [ag_ite_pair, kg_ite_cm, List.append_assoc]
          · simp only [ag_ite_pair, kg_ite_cm]
            have hj3 : j < (setB I j s3).b.length := by simpa using hj
            have hb3 : bsOf (setB I j s3) j = s3 := ag_bsOf_setB_self I j s3 hj
            have ihh := fun cm => ih (setB I j s3) hj3 cm
            rw [hb3] at ihh
            simp only [ag_setB_setB] at ihh
            generalize (if absGe foo0 G.q = true then (0 : Int) else foo0) = foo
            generalize (if absGe bar0 G.q = true then (0 : Int) else bar0) = bar
            generalize (if absGe foo0 G.q = true then [j] else []) = p1
            generalize (if absGe bar0 G.q = true then [j] else []) = p2
            cases hgf : fpowm G.tabG G.g foo G.p with
            | error e => simp [bind, Except.bind]
            | ok gfoo =>
              cases hhb : fpowm G.tabH G.h bar G.p with
              | error e => simp [bind, Except.bind]
              | ok hbar =>
                cases hr : commitProd G.p (j + 1) (getRow st.C (getUi w)) with
                | error e => simp [bind, Except.bind]
                | ok rhs =>
                  simp only [bind, Except.bind]
                  by_cases hne : (gfoo * hbar % G.p != rhs) = true
                  · simp only [hne, if_true]
                    rw [ihh]
                    cases rxS G st.n (getRow st.C) (getRow st.A) st.qual j f s3 with
                    | error e => rfl
                    | ok r => simp [List.append_assoc]
                  · simp only [hne]
                    cases hr2 : commitProd G.p (j + 1) (getRow st.A (getUi w)) with
                    | error e => simp
                    | ok rhs2 =>
                      simp only [Bool.false_eq_true, if_false]
                      rw [ihh]
                      cases rxS G st.n (getRow st.C) (getRow st.A) st.qual j f s3 with
                      | error e => rfl
                      | ok r =>
                        simp only [List.append_assoc]
                        congr 2
                        by_cases hg : (gfoo != rhs2) = true
                        · simp only [hg, if_true]
                          by_cases hq : st.qual.contains (getUi w) = true
                          · simp
                          · simp
                        · simp [hg]

theorem kg_rxS_total (hG : ValidGrp G) (n : Nat) (Cf Af : Nat → List Int) (Q : List Nat) (j f : Nat)
    (s : List (Tag × Int)) : ∃ r, rxS G n Cf Af Q j f s = .ok r := by
  induction f generalizing s with
  | zero => exact ⟨_, rfl⟩
  | succ f ih =>
    unfold rxS
    rcases popS none s with ⟨_ | w, s1⟩
    · exact ⟨_, rfl⟩
    · simp only
      split
      · exact ⟨_, rfl⟩
      · rcases popS none s1 with ⟨_ | foo0, s2⟩
        · exact ⟨_, rfl⟩
        · simp only
          rcases popS none s2 with ⟨_ | bar0, s3⟩
          · exact ⟨_, rfl⟩
          · simp only
            obtain ⟨gfoo, hgf, -⟩ := fpowm_g hG _ (ag_absGe_range G.q hG.vg.q_pos foo0)
            obtain ⟨hbar, hhb, -⟩ := fpowm_h hG _ (ag_absGe_range G.q hG.vg.q_pos bar0)
            obtain ⟨rhs, hr⟩ := ag_commitProd_total hG (j + 1) (Cf (getUi w))
            obtain ⟨rhs2, hr2⟩ := ag_commitProd_total hG (j + 1) (Af (getUi w))
            obtain ⟨r3, hr3⟩ := ih s3
            rw [hgf, hhb, hr]
            simp only [hr2, hr3]
            split <;> exact ⟨_, rfl⟩

/-! `popS` and membership -/

theorem kg_removeFirst_mem (tag : Tag) (s : List (Tag × Int)) (v : Int) (r : List (Tag × Int))
    (h : removeFirst tag s = some (v, r)) : (tag, v) ∈ s ∧ ∀ e ∈ r, e ∈ s := by
  induction s generalizing r with
  | nil => simp [removeFirst] at h
  | cons e rest ih =>
    unfold removeFirst at h
    by_cases he : (e.1 == tag) = true
    · simp only [he, if_true, Option.some.injEq, Prod.mk.injEq] at h
      obtain ⟨rfl, rfl⟩ := h
      have : e.1 = tag := by simpa using he
      exact ⟨by rw [← this]; simp, fun x hx => List.mem_cons_of_mem _ hx⟩
    · simp only [he] at h
      cases hr : removeFirst tag rest with
      | none => rw [hr] at h; simp at h
      | some vr =>
        obtain ⟨v', r'⟩ := vr
        rw [hr] at h
        simp only [Bool.false_eq_true, if_false, Option.some.injEq, Prod.mk.injEq] at h
        obtain ⟨rfl, rfl⟩ := h
        obtain ⟨a1, a2⟩ := ih r' hr
        refine ⟨List.mem_cons_of_mem _ a1, fun x hx => ?_⟩
        rcases List.mem_cons.mp hx with e' | e'
        · rw [e']; simp
        · exact List.mem_cons_of_mem _ (a2 x e')

theorem kg_popS_mem (tag : Tag) (s : List (Tag × Int)) (v : Int) (r : List (Tag × Int))
    (h : popS tag s = (some v, r)) : (tag, v) ∈ s ∧ ∀ e ∈ r, e ∈ s := by
  unfold popS at h
  cases hr : removeFirst tag s with
  | none => rw [hr] at h; simp at h
  | some vr =>
    obtain ⟨v', r'⟩ := vr
    rw [hr] at h
    simp only [Prod.mk.injEq, Option.some.injEq] at h
    obtain ⟨rfl, rfl⟩ := h
    exact kg_removeFirst_mem tag s v' r' hr

theorem kg_popS_none (tag : Tag) (s r : List (Tag × Int)) (h : popS tag s = (none, r)) : r = s := by
  unfold popS at h
  cases hr : removeFirst tag s with
  | none => rw [hr] at h; simp at h; exact h.symm
  | some vr => rw [hr] at h; simp at h

/-- a value of the stream, or the `0` that replaces a value out of range -/
def InS (s : List (Tag × Int)) (v : Int) : Prop := v = 0 ∨ ∃ tag, (tag, v) ∈ s

/-- why somebody else than the sender is pushed: a pair that opens the commitment of the sender's
    share from `x` but contradicts `x`'s Feldman row -/
def PushOK (G : Grp) [Fact (Nat.Prime G.p.natAbs)] (Cf Af : Nat → List Int) (j : Nat) (s : List (Tag × Int))
    (x : Nat) : Prop :=
  ∃ foo bar, InS s foo ∧ InS s bar ∧ foo.natAbs < G.q.natAbs ∧ bar.natAbs < G.q.natAbs ∧
    Eq4 G j (Cf x) foo bar ∧ ¬ Eq5 G j (Af x) foo

theorem kg_InS_absGe (s : List (Tag × Int)) (v : Int) (h : (none, v) ∈ s) (q : Int) :
    InS s (if absGe v q then 0 else v) := by
  by_cases hc : absGe v q = true
  · simp [hc, InS]
  · simp only [hc, Bool.false_eq_true, if_false]
    exact Or.inr ⟨none, h⟩

theorem kg_InS_mono (s s' : List (Tag × Int)) (h : ∀ e ∈ s, e ∈ s') (v : Int) (hv : InS s v) : InS s' v := by
  rcases hv with h0 | ⟨tag, ht⟩
  · exact Or.inl h0
  · exact Or.inr ⟨tag, h _ ht⟩

theorem kg_rxS_push (hG : ValidGrp G) (n : Nat) (Cf Af : Nat → List Int) (Q : List Nat) (j f : Nat)
    (s : List (Tag × Int)) (r : List Nat × List (Tag × Int)) (h : rxS G n Cf Af Q j f s = .ok r) :
    (∀ e ∈ r.2, e ∈ s) ∧
    ∀ x ∈ r.1, x = j ∨ (x ∈ Q ∧ x < n ∧ PushOK G Cf Af j s x) := by
  induction f generalizing s r with
  | zero =>
    simp only [rxS, Except.ok.injEq] at h
    subst h
    exact ⟨fun _ he => he, by simp⟩
  | succ f ih =>
    unfold rxS at h
    rcases hp1 : popS none s with ⟨_ | w, s1⟩
    · rw [hp1] at h
      simp only [Except.ok.injEq] at h
      subst h
      rw [kg_popS_none _ _ _ hp1]
      exact ⟨fun _ he => he, by simp⟩
    · rw [hp1] at h
      obtain ⟨-, m1⟩ := kg_popS_mem _ _ _ _ hp1
      simp only at h
      split at h
      · simp only [Except.ok.injEq] at h
        subst h
        exact ⟨m1, by simp⟩
      · rename_i hwn
        rcases hp2 : popS none s1 with ⟨_ | foo0, s2⟩
        · rw [hp2] at h
          simp only [Except.ok.injEq] at h
          subst h
          rw [kg_popS_none _ _ _ hp2]
          exact ⟨m1, by simp⟩
        · rw [hp2] at h
          obtain ⟨f1, m2⟩ := kg_popS_mem _ _ _ _ hp2
          simp only at h
          rcases hp3 : popS none s2 with ⟨_ | bar0, s3⟩
          · rw [hp3] at h
            simp only [Except.ok.injEq] at h
            subst h
            rw [kg_popS_none _ _ _ hp3]
            refine ⟨fun e he => m1 e (m2 e he), ?_⟩
            intro x hx
            left
            split at hx <;> simp at hx <;> exact hx
          · rw [hp3] at h
            obtain ⟨b1, m3⟩ := kg_popS_mem _ _ _ _ hp3
            simp only at h
            have hm13 : ∀ e ∈ s3, e ∈ s := fun e he => m1 e (m2 e (m3 e he))
            have hfoo : InS s (if absGe foo0 G.q then 0 else foo0) := kg_InS_absGe s foo0 (m1 _ f1) G.q
            have hbar : InS s (if absGe bar0 G.q then 0 else bar0) := kg_InS_absGe s bar0 (m1 _ (m2 _ b1)) G.q
            have hfr := ag_absGe_range G.q hG.vg.q_pos foo0
            have hbr := ag_absGe_range G.q hG.vg.q_pos bar0
            obtain ⟨gfoo, hgf, g0, g1, gv⟩ := fpowm_g hG _ hfr
            obtain ⟨hbar', hhb, -, -, hv⟩ := fpowm_h hG _ hbr
            obtain ⟨rhs, hr, r0, r1, rv⟩ := kg_commitProd_val hG (j + 1) (Cf (getUi w))
            obtain ⟨rhs2, hr2, q0, q1, qv⟩ := kg_commitProd_val hG (j + 1) (Af (getUi w))
            rw [hgf, hhb, hr] at h
            simp only [hr2] at h
            have hpre : ∀ x, x ∈ (if absGe foo0 G.q = true then [j] else []) ++
                (if absGe bar0 G.q = true then [j] else []) → x = j := by
              intro x hx
              rcases List.mem_append.mp hx with h' | h' <;> (split at h' <;> simp at h' <;> exact h')
            split at h
            · cases hrec : rxS G n Cf Af Q j f s3 with
              | error e => rw [hrec] at h; cases h
              | ok r3 =>
                rw [hrec] at h
                simp only [Except.ok.injEq] at h
                subst h
                obtain ⟨i1, i2⟩ := ih s3 r3 hrec
                refine ⟨fun e he => hm13 e (i1 e he), ?_⟩
                intro x hx
                simp only [List.append_assoc, List.mem_append, List.mem_singleton] at hx
                rcases hx with hx | hx | hx | hx
                · exact Or.inl (hpre x (List.mem_append_left _ hx))
                · exact Or.inl (hpre x (List.mem_append_right _ hx))
                · exact Or.inl hx
                · rcases i2 x hx with e | ⟨e1, e2, foo, bar, c1, c2, c3, c4, c5, c6⟩
                  · exact Or.inl e
                  · exact Or.inr ⟨e1, e2, foo, bar, kg_InS_mono _ _ hm13 _ c1, kg_InS_mono _ _ hm13 _ c2, c3, c4,
                      c5, c6⟩
            · rename_i heq4
              cases hrec : rxS G n Cf Af Q j f s3 with
              | error e => rw [hrec] at h; cases h
              | ok r3 =>
                rw [hrec] at h
                simp only [Except.ok.injEq] at h
                subst h
                obtain ⟨i1, i2⟩ := ih s3 r3 hrec
                refine ⟨fun e he => hm13 e (i1 e he), ?_⟩
                intro x hx
                simp only [List.append_assoc, List.mem_append] at hx
                rcases hx with hx | hx | hx | hx
                · exact Or.inl (hpre x (List.mem_append_left _ hx))
                · exact Or.inl (hpre x (List.mem_append_right _ hx))
                · by_cases hg : (gfoo != rhs2) = true
                  · simp only [hg, if_true] at hx
                    by_cases hq : Q.contains (getUi w) = true
                    · simp only [hq, if_true, List.mem_singleton] at hx
                      subst hx
                      right
                      refine ⟨by simpa using hq, by omega, _, _, hfoo, hbar, hfr, hbr, ?_, ?_⟩
                      · unfold Eq4
                        have : gfoo * hbar' % G.p = rhs := by simpa using heq4
                        rw [← rv, ← this, cp_emod hG, cp_mul, gv, hv]
                      · intro he
                        unfold Eq5 at he
                        have : gfoo = rhs2 := cp_inj hG ⟨g0, g1⟩ ⟨q0, q1⟩ (by rw [gv, qv, he])
                        simp [this] at hg
                    · exfalso
                      simp only [hq, Bool.false_eq_true, if_false, List.not_mem_nil] at hx
                  · simp only [hg] at hx
                    left
                    simpa using hx
                · rcases i2 x hx with e | ⟨e1, e2, foo, bar, c1, c2, c3, c4, c5, c6⟩
                  · exact Or.inl e
                  · exact Or.inr ⟨e1, e2, foo, bar, kg_InS_mono _ _ hm13 _ c1, kg_InS_mono _ _ hm13 _ c2, c3, c4,
                      c5, c6⟩

theorem kg_absGe_false (q v : Int) (h : v.natAbs < q.natAbs) : absGe v q = false := by
  simp only [absGe, decide_eq_false_iff_not]
  omega

/-- the extraction complaints of an honest sender: every accused party is pushed, nobody else -/
theorem kg_rxS_honest (hG : ValidGrp G) (n : Nat) (hn : n < 2 ^ 64) (Cf Af : Nat → List Int) (Q : List Nat)
    (j : Nat) (σ τ : Nat → Int) (cl : List Nat) (f : Nat) (hf : cl.length + 1 ≤ f)
    (hcl : ∀ w ∈ cl, w < n ∧ w ∈ Q ∧ (σ w).natAbs < G.q.natAbs ∧ (τ w).natAbs < G.q.natAbs ∧
      Eq4 G j (Cf w) (σ w) (τ w) ∧ ¬ Eq5 G j (Af w) (σ w)) :
    rxS G n Cf Af Q j f (cl.flatMap (fun (w : Nat) => [((none : Tag), (w : Int)), (none, σ w), (none, τ w)]) ++
      [((none : Tag), (n : Int))]) = .ok (cl, []) := by
  induction cl generalizing f with
  | nil =>
    obtain ⟨f, rfl⟩ : ∃ f', f = f' + 1 := ⟨f - 1, by simp at hf; omega⟩
    simp [rxS, ag_popS_none_cons, ag_getUi_nat n hn]
  | cons w cl ih =>
    obtain ⟨f, rfl⟩ : ∃ f', f = f' + 1 := ⟨f - 1, by simp at hf; omega⟩
    obtain ⟨hw, hwQ, hs, ht, h4, h5⟩ := hcl w (by simp)
    simp only [List.length_cons] at hf
    have hrec := ih f (by omega) (fun y hy => hcl y (List.mem_cons_of_mem _ hy))
    have hnw : ¬ w ≥ n := by omega
    obtain ⟨gfoo, hgf, g0, g1, gv⟩ := fpowm_g hG _ hs
    obtain ⟨hbar, hhb, -, -, hv⟩ := fpowm_h hG _ ht
    obtain ⟨rhs, hr, r0, r1, rv⟩ := kg_commitProd_val hG (j + 1) (Cf w)
    obtain ⟨rhs2, hr2, q0, q1, qv⟩ := kg_commitProd_val hG (j + 1) (Af w)
    have heq : gfoo * hbar % G.p = rhs := by
      apply cp_inj hG (p_bounds hG _) ⟨r0, r1⟩
      rw [cp_emod hG, cp_mul, gv, hv, rv]
      exact h4
    have hne : (gfoo != rhs2) = true := by
      simp only [bne_iff_ne, ne_eq]
      intro he
      apply h5
      unfold Eq5
      rw [← gv, he, qv]
    have hqc : Q.contains w = true := by simpa using hwQ
    simp only [List.flatMap_cons, List.cons_append, List.nil_append, rxS, ag_popS_none_cons,
      ag_getUi_nat w (by omega), hnw, if_false, kg_absGe_false _ _ hs, kg_absGe_false _ _ ht, Bool.false_eq_true,
      hgf, hhb, hr, heq, bne_self_eq_false, hr2, hrec, hne, if_true, hqc]

/-- the pushes / the rest of sender `k`'s stream in step 4(c) -/
def rxPush (G : Grp) (n : Nat) (Cf Af : Nat → List Int) (Q : List Nat) (k : Nat) (s : List (Tag × Int)) : List Nat :=
  match rxS G n Cf Af Q k (n + 1) s with
  | .ok r => r.1
  | .error _ => []

def rxRest (G : Grp) (n : Nat) (Cf Af : Nat → List Int) (Q : List Nat) (k : Nat) (s : List (Tag × Int)) :
    List (Tag × Int) :=
  match rxS G n Cf Af Q k (n + 1) s with
  | .ok r => r.2
  | .error _ => s

/-- step 4(c): the loop over the senders -/
theorem kg_genExtractGo_spec (hG : ValidGrp G) (st : GenSt) (L : List Nat) (hL : L.Nodup) (I : Inbox)
    (hI : ∀ j ∈ L, j < I.b.length) (cm : List Nat) :
    ∃ I' cm', genExtractGo G st L I cm = .ok (I', cm') ∧ I'.b.length = I.b.length ∧
      (∀ k, bsOf I' k = if k ∈ L ∧ k ≠ st.i ∧ k ∈ st.qual
        then rxRest G st.n (getRow st.C) (getRow st.A) st.qual k (bsOf I k) else bsOf I k) ∧
      (∀ x, x ∈ cm' ↔ x ∈ cm ∨ ∃ k, k ∈ L ∧ k ≠ st.i ∧ k ∈ st.qual ∧
        x ∈ rxPush G st.n (getRow st.C) (getRow st.A) st.qual k (bsOf I k)) := by
  induction L generalizing I cm with
  | nil => exact ⟨I, cm, rfl, rfl, by simp, by simp⟩
  | cons j rest ih =>
    have hnd := List.nodup_cons.mp hL
    have hIr : ∀ k ∈ rest, k < I.b.length := fun k hk => hI k (List.mem_cons_of_mem _ hk)
    unfold genExtractGo
    by_cases hskip : j = st.i ∨ (!st.qual.contains j) = true
    · simp only [hskip, if_true]
      obtain ⟨I', cm', h, a1, a3, a5⟩ := ih hnd.2 I hIr cm
      have hj : ¬ (j ≠ st.i ∧ j ∈ st.qual) := by
        rintro ⟨h1, h2⟩
        rcases hskip with e | e
        · exact h1 e
        · simp [h2] at e
      refine ⟨I', cm', h, a1, fun k => ?_, fun x => ?_⟩
      · rw [a3 k]
        by_cases hkj : k = j
        · subst hkj
          simp only [hnd.1, false_and, if_false]
          rw [if_neg (fun h => hj ⟨h.2.1, h.2.2⟩)]
        · simp [hkj]
      · rw [a5 x]
        constructor
        · rintro (h | ⟨k, h1, h2, h3, h4⟩)
          · exact Or.inl h
          · exact Or.inr ⟨k, List.mem_cons_of_mem _ h1, h2, h3, h4⟩
        · rintro (h | ⟨k, h1, h2, h3, h4⟩)
          · exact Or.inl h
          · rcases List.mem_cons.mp h1 with e | e
            · subst e
              exact absurd ⟨h2, h3⟩ hj
            · exact Or.inr ⟨k, e, h2, h3, h4⟩
    · simp only [hskip, if_false]
      have hji : j ≠ st.i := fun e => hskip (Or.inl e)
      have hjq : j ∈ st.qual := by
        by_contra hn
        exact hskip (Or.inr (by simp [hn]))
      obtain ⟨⟨ps, rst⟩, hrx⟩ := kg_rxS_total hG st.n (getRow st.C) (getRow st.A) st.qual j (st.n + 1) (bsOf I j)
      rw [kg_genReadExtract st j (st.n + 1) I (hI j (by simp)), hrx]
      simp only [bind, Except.bind]
      obtain ⟨I', cm', h, a1, a3, a5⟩ := ih hnd.2 (setB I j rst) (fun k hk => by simpa using hIr k hk) (cm ++ ps)
      have hfr : ∀ k, k ∈ rest → bsOf (setB I j rst) k = bsOf I k := fun k hk =>
        ag_bsOf_setB_ne _ _ _ _ (fun e => hnd.1 (e ▸ hk))
      refine ⟨I', cm', h, by rw [a1]; simp, fun k => ?_, fun x => ?_⟩
      · rw [a3 k]
        by_cases hkj : k = j
        · subst hkj
          simp [hnd.1, hji, hjq, rxRest, hrx, ag_bsOf_setB_self I k _ (hI k (by simp))]
        · have hb : bsOf (setB I j rst) k = bsOf I k := ag_bsOf_setB_ne _ _ _ _ (Ne.symm hkj)
          simp [hkj, hb]
      · rw [a5 x]
        simp only [List.mem_append]
        constructor
        · rintro ((h | h) | ⟨k, h1, h2, h3, h4⟩)
          · exact Or.inl h
          · exact Or.inr ⟨j, by simp, hji, hjq, by simp [rxPush, hrx, h]⟩
          · rw [hfr k h1] at h4
            exact Or.inr ⟨k, List.mem_cons_of_mem _ h1, h2, h3, h4⟩
        · rintro (h | ⟨k, h1, h2, h3, h4⟩)
          · exact Or.inl (Or.inl h)
          · rcases List.mem_cons.mp h1 with e | e
            · subst e
              left; right
              simpa [rxPush, hrx] using h4
            · rw [← hfr k e] at h4
              exact Or.inr ⟨k, e, h2, h3, h4⟩

end Tmcg.DkgP
