import TmcgProofs.JlInv
import TmcgProofs.JlArith
/-
  C17, multi-party part: transition round 5 (jlReadOpen) of the run invariants (TmcgProofs/JlInv.lean).
-/
namespace Tmcg.JlProofs
open Tmcg Tmcg.Powm Tmcg.Vtmf Tmcg.Grp Tmcg.Jl

variable {G : Jl.Grp} {ins : List PartyIn} {n t : Nat}

namespace T5

set_option linter.unusedSectionVars false

theorem absLt_zero (hG : ValidGrp G) : AbsLt G 0 := by
  have := q_pos hG
  unfold AbsLt
  simp only [Int.natAbs_zero]
  omega

theorem popQ_head (tag : Tag) (v : Int) (l : List (Tag × Int)) :
    popQ tag ((tag, v) :: l) = (some v, l) := by
  unfold popQ
  rw [removeFirst_head]

theorem parseOpen_absLt (hG : ValidGrp G) (l : List (Tag × Int)) :
    AbsLt G (parseOpen G.q l).2.1 ∧ AbsLt G (parseOpen G.q l).2.2.1 := by
  have h0 := absLt_zero hG
  unfold parseOpen
  rcases h1 : popQ tagFlip l with ⟨o1, q1⟩
  cases o1 with
  | none => exact ⟨h0, h0⟩
  | some v =>
    simp only []
    rcases h2 : popQ tagFlip q1 with ⟨o2, q2⟩
    have hv : AbsLt G (if absGe v G.q = true then 0 else v) := by
      by_cases hc : absGe v G.q = true
      · rw [if_pos hc]; exact h0
      · rw [if_neg hc]; exact (absGe_false_iff G v).1 (by simpa using hc)
    cases o2 with
    | none => exact ⟨hv, h0⟩
    | some w =>
      refine ⟨hv, ?_⟩
      simp only []
      by_cases hc : absGe w G.q = true
      · rw [if_pos hc]; exact h0
      · rw [if_neg hc]; exact (absGe_false_iff G w).1 (by simpa using hc)

theorem parseOpen_honest (c0 c1 : Int) (h0 : AbsLt G c0) (h1 : AbsLt G c1) :
    parseOpen G.q [(tagFlip, c0), (tagFlip, c1)] = ([], c0, c1, false) := by
  have e0 := (absGe_false_iff G c0).2 h0
  have e1 := (absGe_false_iff G c1).2 h1
  unfold parseOpen
  rw [popQ_head]
  simp only []
  rw [popQ_head]
  simp only [e0, e1, Bool.false_eq_true, if_false, Bool.or_self]

theorem getI_cOf_zero (ins : List PartyIn) (t j : Nat) :
    getI (cOf ins t j) 0 = getI (pinOf ins j).strong 0 := by
  unfold cOf
  show ((List.range (t + 1)).map _).getD 0 0 = _
  rw [List.getD_eq_getElem?_getD, List.getElem?_map, List.getElem?_range (by omega)]
  rfl

theorem getI_hcOf_zero (ins : List PartyIn) (t j : Nat) :
    getI (hcOf ins t j) 0 = getI (pinOf ins j).strong 1 := by
  unfold hcOf
  show ((List.range (t + 1)).map _).getD 0 0 = _
  rw [List.getD_eq_getElem?_getD, List.getElem?_map, List.getElem?_range (by omega)]
  rfl

theorem coin0_range (hS : Setup G ins n t) {j : Nat} (hj : HonIdx ins n j) :
    InRange G (getI (cOf ins t j) 0) ∧ InRange G (getI (hcOf ins t j) 0) := by
  rw [getI_cOf_zero, getI_hcOf_zero]
  exact ⟨(hS.hcoins j hj).2 0 (by omega), (hS.hcoins j hj).2 1 (by omega)⟩

/-- monotonicity of `filter` in the predicate -/
theorem filter_sublist_of_imp {α} (l : List α) (p q : α → Bool) (h : ∀ a ∈ l, p a = true → q a = true) :
    (l.filter p).Sublist (l.filter q) := by
  have : l.filter p = (l.filter q).filter p := by
    rw [List.filter_filter]
    apply List.filter_congr
    intro a ha
    by_cases hp : p a = true
    · simp [hp, h a ha hp]
    · simp [hp]
  rw [this]
  exact List.filter_sublist

theorem exists_honest (hS : Setup G ins n t) : ∃ x, HonIdx ins n x := by
  by_contra hne
  have hall : ∀ k ∈ List.range n, (!(pinOf ins k).dev.honest) = true := by
    intro k hk
    have hk' := List.mem_range.1 hk
    cases hh : (pinOf ins k).dev.honest with
    | true => exact absurd ⟨k, hk', hh⟩ hne
    | false => rfl
  have := hS.hdev
  rw [List.filter_eq_self.2 hall, List.length_range] at this
  have := hS.hnt
  omega

theorem getD_map_range {α} (f : Nat → α) (d : α) {j n : Nat} (hj : j < n) :
    ((List.range n).map f).getD j d = f j := by
  rw [List.getD_eq_getElem?_getD, List.getElem?_map, List.getElem?_range hj]
  rfl

/-! ### the public objects of round 5 -/

/-- the opening of `j` as every honest reader parses it -/
def pubO (G : Jl.Grp) (Q : Nat → List (Tag × Int)) (j : Nat) : List (Tag × Int) × Int × Int × Bool :=
  parseOpen G.q (Q j)

/-- the check of the opening against the commitment, as the model computes it -/
def chkO (G : Jl.Grp) (CH : List (List Int)) (Q : Nat → List (Tag × Int)) (j : Nat) : Bool :=
  match pedS G (pubO G Q j).2.1 (pubO G Q j).2.2.1 with
  | .ok lhs => lhs != (1 * getI (getRow CH j) 0) % G.p
  | .error _ => true

/-- the accused -/
def accO (G : Jl.Grp) (n : Nat) (CH : List (List Int)) (QL : List Nat) (Q : Nat → List (Tag × Int)) : List Nat :=
  (List.range n).filter (fun j => QL.contains j && ((pubO G Q j).2.2.2 || chkO G CH Q j))

/-- what an honest reader leaves of `j`'s queue -/
def leftO (G : Jl.Grp) (QL : List Nat) (Q : Nat → List (Tag × Int)) (j : Nat) : List (Tag × Int) :=
  if QL.contains j then (pubO G Q j).1 else Q j

theorem chkO_spec [Fact (Nat.Prime (grp G).p.natAbs)] (hG : ValidGrp G) (CH : List (List Int))
    (Q : Nat → List (Tag × Int)) (j : Nat) (hrow : IsElem G (getI (getRow CH j) 0)) :
    (∃ lhs, pedS G (pubO G Q j).2.1 (pubO G Q j).2.2.1 = .ok lhs ∧
      (lhs != (1 * getI (getRow CH j) 0) % G.p) = chkO G CH Q j) ∧
    (chkO G CH Q j = false ↔
      com G (pubO G Q j).2.1 (pubO G Q j).2.2.1 = toF (grp G) (getI (getRow CH j) 0)) := by
  obtain ⟨r, hr, h0, h1, hv⟩ := pedS_val hG _ _ (parseOpen_absLt hG (Q j)).1 (parseOpen_absLt hG (Q j)).2
  change pedS G (pubO G Q j).2.1 (pubO G Q j).2.2.1 = .ok r at hr
  change toF (grp G) r = com G (pubO G Q j).2.1 (pubO G Q j).2.2.1 at hv
  have hmod : (1 * getI (getRow CH j) 0) % G.p = getI (getRow CH j) 0 := by
    rw [one_mul, Int.emod_eq_of_lt (le_of_lt hrow.1) hrow.2.1]
  have hc : chkO G CH Q j = (r != (1 * getI (getRow CH j) 0) % G.p) := by
    unfold chkO
    rw [hr]
  refine ⟨⟨r, hr, hc.symm⟩, ?_⟩
  rw [hc, hmod, ← hv]
  constructor
  · intro h
    have : r = getI (getRow CH j) 0 := by simpa using h
    rw [this]
  · intro h
    have : r = getI (getRow CH j) 0 :=
      eq_of_toF_eq (G := grp G) hG.valid ⟨h0, h1⟩ ⟨le_of_lt hrow.1, hrow.2.1⟩ h
    simp [this]

section
variable [Fact (Nat.Prime (grp G).p.natAbs)] {Q : Nat → List (Tag × Int)} {CH : List (List Int)} {QL : List Nat}

theorem pubO_honest (hS : Setup G ins n t) (h : Inv5 G ins n t Q CH QL) {j : Nat} (hj : HonIdx ins n j) :
    pubO G Q j = ([], getI (cOf ins t j) 0, getI (hcOf ins t j) 0, false) := by
  unfold pubO
  rw [h.q_hon j hj]
  exact parseOpen_honest _ _ (coin0_range hS hj).1.absLt (coin0_range hS hj).2.absLt

theorem chkO_honest (hS : Setup G ins n t) (h : Inv5 G ins n t Q CH QL) {j : Nat} (hj : HonIdx ins n j) :
    chkO G CH Q j = false := by
  have hrow := h.qual.ch_hon j hj
  have h0 : 0 < (getRow CH j).length := by rw [hrow.2]; omega
  have hr0 := hrow.1.2 0 h0
  rw [(chkO_spec hS.hG CH Q j hr0.1).2, pubO_honest hS h hj]
  exact hr0.2.symm

theorem accO_mem (j : Nat) : j ∈ accO G n CH QL Q ↔
    j < n ∧ j ∈ QL ∧ ((pubO G Q j).2.2.2 = true ∨ chkO G CH Q j = true) := by
  unfold accO
  simp [List.mem_filter]

theorem accO_not_honest (hS : Setup G ins n t) (h : Inv5 G ins n t Q CH QL) {j : Nat}
    (hj : j ∈ accO G n CH QL Q) : ¬ HonIdx ins n j := by
  intro hh
  have := (accO_mem j).1 hj
  rw [pubO_honest hS h hh, chkO_honest hS h hh] at this
  simp at this

theorem accO_length (hS : Setup G ins n t) (h : Inv5 G ins n t Q CH QL) :
    (accO G n CH QL Q).length ≤ t := by
  refine le_trans (List.Sublist.length_le ?_) hS.hdev
  unfold accO
  apply filter_sublist_of_imp
  intro j hj hp
  have hjn := List.mem_range.1 hj
  have hm : j ∈ accO G n CH QL Q := by
    unfold accO
    exact List.mem_filter.2 ⟨hj, hp⟩
  have hnh := accO_not_honest hS h hm
  cases hh : (pinOf ins j).dev.honest with
  | true => exact absurd ⟨hjn, hh⟩ hnh
  | false => rfl

theorem accO_sorted : (accO G n CH QL Q).Pairwise (· < ·) := by
  unfold accO
  exact List.Pairwise.filter _ List.pairwise_lt_range

end

/-- `checkOpen` with an abstract verdict `bad` on the entries it looks at -/
theorem checkOpen_spec (st : St) (a ha : List Int) (bad : Nat → Bool) :
    ∀ (js cm : List Nat),
    (∀ k ∈ js, k ≠ st.i → st.qual.contains k = true →
      ∃ lhs, pedS G (getI a k) (getI ha k) = .ok lhs ∧
        (lhs != (1 * getI (getRow st.C k) 0) % G.p) = bad k) →
    ∃ cm', checkOpen G st a ha js cm = .ok cm' ∧
      ∀ k, k ∈ cm' ↔ k ∈ cm ∨ (k ∈ js ∧ k ≠ st.i ∧ st.qual.contains k = true ∧ bad k = true) := by
  intro js
  induction js with
  | nil =>
    intro cm _
    exact ⟨cm, rfl, by simp⟩
  | cons j rest ih =>
    intro cm hyp
    have hyp' : ∀ k ∈ rest, k ≠ st.i → st.qual.contains k = true →
        ∃ lhs, pedS G (getI a k) (getI ha k) = .ok lhs ∧
          (lhs != (1 * getI (getRow st.C k) 0) % G.p) = bad k :=
      fun k hk => hyp k (List.mem_cons_of_mem _ hk)
    by_cases hc : j = st.i ∨ (!st.qual.contains j) = true
    · obtain ⟨cm', h1, h2⟩ := ih cm hyp'
      refine ⟨cm', ?_, ?_⟩
      · rw [checkOpen, if_pos hc]; exact h1
      · intro k
        rw [h2 k]
        constructor
        · rintro (h | ⟨h3, h4⟩)
          · exact Or.inl h
          · exact Or.inr ⟨List.mem_cons_of_mem _ h3, h4⟩
        · rintro (h | ⟨h3, h4, h5, h6⟩)
          · exact Or.inl h
          · rcases List.mem_cons.1 h3 with h3 | h3
            · subst h3
              rcases hc with hc | hc
              · exact absurd hc h4
              · rw [h5] at hc; simp at hc
            · exact Or.inr ⟨h3, h4, h5, h6⟩
    · have hji : j ≠ st.i := fun e => hc (Or.inl e)
      have hjq : st.qual.contains j = true := by
        cases hq : st.qual.contains j with
        | true => rfl
        | false => exact absurd (Or.inr (by rw [hq]; rfl)) hc
      obtain ⟨lhs, hl1, hl2⟩ := hyp j List.mem_cons_self hji hjq
      obtain ⟨cm', h1, h2⟩ := ih (if bad j = true then cm ++ [j] else cm) hyp'
      refine ⟨cm', ?_, ?_⟩
      · rw [checkOpen, if_neg hc, hl1]
        simp only [bind, Except.bind]
        rw [hl2]
        exact h1
      · intro k
        rw [h2 k]
        by_cases hb : bad j = true
        · rw [if_pos hb]
          constructor
          · rintro (h | ⟨h3, h4⟩)
            · rcases List.mem_append.1 h with h | h
              · exact Or.inl h
              · have : k = j := by simpa using h
                subst this
                exact Or.inr ⟨List.mem_cons_self, hji, hjq, hb⟩
            · exact Or.inr ⟨List.mem_cons_of_mem _ h3, h4⟩
          · rintro (h | ⟨h3, h4, h5, h6⟩)
            · exact Or.inl (List.mem_append_left _ h)
            · rcases List.mem_cons.1 h3 with h3 | h3
              · subst h3
                exact Or.inl (List.mem_append_right _ (by simp))
              · exact Or.inr ⟨h3, h4, h5, h6⟩
        · rw [if_neg hb]
          constructor
          · rintro (h | ⟨h3, h4⟩)
            · exact Or.inl h
            · exact Or.inr ⟨List.mem_cons_of_mem _ h3, h4⟩
          · rintro (h | ⟨h3, h4, h5, h6⟩)
            · exact Or.inl h
            · rcases List.mem_cons.1 h3 with h3 | h3
              · subst h3
                exact absurd h6 hb
              · exact Or.inr ⟨h3, h4, h5, h6⟩

/-- what `jlRecNext` leaves alone -/
theorem jlRecNext_fields (st : St) :
    (jlRecNext G st).1.n = st.n ∧ (jlRecNext G st).1.t = st.t ∧ (jlRecNext G st).1.i = st.i ∧
    (jlRecNext G st).1.sfb = st.sfb ∧ (jlRecNext G st).1.c = st.c ∧ (jlRecNext G st).1.hc = st.hc ∧
    (jlRecNext G st).1.C = st.C ∧ (jlRecNext G st).1.qual = st.qual ∧ (jlRecNext G st).1.s = st.s ∧
    (jlRecNext G st).1.sp = st.sp ∧ (jlRecNext G st).1.a = st.a ∧ (jlRecNext G st).1.ha = st.ha ∧
    (jlRecNext G st).1.racc = st.racc ∧ (jlRecNext G st).1.todo = st.todo := by
  unfold jlRecNext
  split
  · exact ⟨rfl, rfl, rfl, rfl, rfl, rfl, rfl, rfl, rfl, rfl, rfl, rfl, rfl, rfl⟩
  · split <;> exact ⟨rfl, rfl, rfl, rfl, rfl, rfl, rfl, rfl, rfl, rfl, rfl, rfl, rfl, rfl⟩

theorem jlRecNext_nil (st : St) (h : st.todo = []) :
    (jlRecNext G st).2.1 = [] ∧ (jlRecNext G st).2.2 = .ret true ∧
    (jlRecNext G st).1.coin = some (sumMod G.q st.a st.qual) := by
  unfold jlRecNext
  rw [h]
  exact ⟨rfl, rfl, rfl⟩

theorem jlRecNext_cons (st : St) (it : Nat) (rest : List Nat) (h : st.todo = it :: rest)
    (hq : st.qual.contains it = true) (hme : st.racc.contains st.i = false)
    (hqi : st.qual.contains st.i = true) :
    (jlRecNext G st).2.1 = [Op.bc (tagRec st.racc) (getI st.s it), Op.bc (tagRec st.racc) (getI st.sp it)] ∧
    (jlRecNext G st).2.2 = .run := by
  unfold jlRecNext
  rw [h]
  simp at hq hme hqi
  simp [hq, hme, hqi]

/-- the shape of a successful `jlReadOpen` -/
theorem jlReadOpen_ok (st : St) (I : Inbox) (cm2 : List Nat)
    (hck : checkOpen G st
      ((List.range st.n).map (fun j => if (j != st.i && st.qual.contains j) then (parseOpen G.q (I.bq j)).2.1 else getI st.a j))
      ((List.range st.n).map (fun j => if (j != st.i && st.qual.contains j) then (parseOpen G.q (I.bq j)).2.2.1 else getI st.ha j))
      (List.range st.n)
      ((List.range st.n).filter (fun j => (j != st.i && st.qual.contains j) && (parseOpen G.q (I.bq j)).2.2.2)) = .ok cm2)
    (hlen : ¬ (sortUniq st.n cm2).length > st.t) :
    jlReadOpen G st I = .ok
      ((jlRecNext G { st with
          a := (List.range st.n).map (fun j => if (j != st.i && st.qual.contains j) then (parseOpen G.q (I.bq j)).2.1 else getI st.a j),
          ha := (List.range st.n).map (fun j => if (j != st.i && st.qual.contains j) then (parseOpen G.q (I.bq j)).2.2.1 else getI st.ha j),
          compl := sortUniq st.n cm2, racc := sortUniq st.n cm2, todo := sortUniq st.n cm2 }).1,
       { I with b := (List.range st.n).map (fun j => if (j != st.i && st.qual.contains j) then (parseOpen G.q (I.bq j)).1 else I.bq j) },
       (jlRecNext G { st with
          a := (List.range st.n).map (fun j => if (j != st.i && st.qual.contains j) then (parseOpen G.q (I.bq j)).2.1 else getI st.a j),
          ha := (List.range st.n).map (fun j => if (j != st.i && st.qual.contains j) then (parseOpen G.q (I.bq j)).2.2.1 else getI st.ha j),
          compl := sortUniq st.n cm2, racc := sortUniq st.n cm2, todo := sortUniq st.n cm2 }).2.1,
       (jlRecNext G { st with
          a := (List.range st.n).map (fun j => if (j != st.i && st.qual.contains j) then (parseOpen G.q (I.bq j)).2.1 else getI st.a j),
          ha := (List.range st.n).map (fun j => if (j != st.i && st.qual.contains j) then (parseOpen G.q (I.bq j)).2.2.1 else getI st.ha j),
          compl := sortUniq st.n cm2, racc := sortUniq st.n cm2, todo := sortUniq st.n cm2 }).2.2) := by
  unfold jlReadOpen
  simp only [bind, Except.bind, pure, Except.pure]
  rw [hck]
  simp only [hlen, if_false]


section
variable [Fact (Nat.Prime (grp G).p.natAbs)] {Q : Nat → List (Tag × Int)} {CH : List (List Int)} {QL : List Nat}

/-- the step of an honest reader in round 5 -/
theorem readOpen_step (hS : Setup G ins n t) (h : Inv5 G ins n t Q CH QL) {x : Nat} (hx : HonIdx ins n x)
    (st : St) (I : Inbox) (hcore : Core ins n t x st) (hsh : Shared G ins n t CH QL x st)
    (hbox : Boxes n x I Q) :
    ∃ st' I' ops s, jlReadOpen G st I = .ok (st', I', ops, s) ∧ Core ins n t x st' ∧
      Shared G ins n t CH QL x st' ∧ st'.racc = accO G n CH QL Q ∧ st'.todo = accO G n CH QL Q ∧
      (∀ j, j ∈ QL → getI st'.a j = (pubO G Q j).2.1) ∧
      (∀ j, j ∈ QL → getI st'.ha j = (pubO G Q j).2.2.1) ∧
      I'.b.length = n ∧ I'.p.length = n ∧
      (∀ j, j < n → j ≠ x → I'.bq j = leftO G QL Q j) ∧
      (0 < (accO G n CH QL Q).length → s = .run ∧
        bsOf ops = [(tagRec (accO G n CH QL Q), getI st'.s ((accO G n CH QL Q).getD 0 0)),
                    (tagRec (accO G n CH QL Q), getI st'.sp ((accO G n CH QL Q).getD 0 0))]) ∧
      (0 = (accO G n CH QL Q).length → s = .ret true ∧ st'.coin = some (sumMod G.q st'.a QL)) := by
  have hxn : x < n := hx.1
  have hxQ : x ∈ QL := h.qual.hon_mem x hx
  have hpx := pubO_honest hS h hx
  have hcx := chkO_honest hS h hx
  have hreads : ∀ j, j < n → j ≠ x → (j != st.i && st.qual.contains j) = QL.contains j := by
    intro j _ hjx
    rw [hcore.i_eq, hsh.qual_eq]
    simp [hjx]
  have hreadx : (x != st.i && st.qual.contains x) = false := by
    rw [hcore.i_eq]; simp
  have hbq : ∀ j, j < n → j ≠ x → parseOpen G.q (I.bq j) = pubO G Q j := by
    intro j hj hjx
    rw [hbox.bq_eq j hj hjx]; rfl
  -- the new `a`, `ha`
  have hA : ∀ j, j ∈ QL → getI ((List.range st.n).map (fun j => if (j != st.i && st.qual.contains j) then
      (parseOpen G.q (I.bq j)).2.1 else getI st.a j)) j = (pubO G Q j).2.1 := by
    intro j hjQ
    have hjn := h.qual.lt_n j hjQ
    unfold getI
    rw [hcore.n_eq, getD_map_range _ _ hjn]
    by_cases hjx : j = x
    · subst hjx
      rw [hreadx]
      simp only [Bool.false_eq_true, if_false]
      rw [hpx]
      exact hsh.a_own
    · rw [hreads j hjn hjx, hbq j hjn hjx]
      simp [hjQ]
  have hHA : ∀ j, j ∈ QL → getI ((List.range st.n).map (fun j => if (j != st.i && st.qual.contains j) then
      (parseOpen G.q (I.bq j)).2.2.1 else getI st.ha j)) j = (pubO G Q j).2.2.1 := by
    intro j hjQ
    have hjn := h.qual.lt_n j hjQ
    unfold getI
    rw [hcore.n_eq, getD_map_range _ _ hjn]
    by_cases hjx : j = x
    · subst hjx
      rw [hreadx]
      simp only [Bool.false_eq_true, if_false]
      rw [hpx]
      exact hsh.ha_own
    · rw [hreads j hjn hjx, hbq j hjn hjx]
      simp [hjQ]
  -- the check
  obtain ⟨cm2, hck, hmem⟩ := checkOpen_spec (G := G) st
    ((List.range st.n).map (fun j => if (j != st.i && st.qual.contains j) then (parseOpen G.q (I.bq j)).2.1 else getI st.a j))
    ((List.range st.n).map (fun j => if (j != st.i && st.qual.contains j) then (parseOpen G.q (I.bq j)).2.2.1 else getI st.ha j))
    (chkO G CH Q) (List.range st.n)
    ((List.range st.n).filter (fun j => (j != st.i && st.qual.contains j) && (parseOpen G.q (I.bq j)).2.2.2))
    (by
      intro k _ _ hkq
      rw [hsh.qual_eq] at hkq
      have hkQ : k ∈ QL := by simpa using hkq
      rw [hA k hkQ, hHA k hkQ, hsh.C_eq]
      exact (chkO_spec hS.hG CH Q k ((h.qual.rows k hkQ).2 0 (by omega))).1)
  have hR : sortUniq st.n cm2 = accO G n CH QL Q := by
    unfold sortUniq accO
    rw [hcore.n_eq]
    apply List.filter_congr
    intro j hj
    have hjn := List.mem_range.1 hj
    apply Bool.eq_iff_iff.2
    rw [List.contains_iff_mem, hmem j, List.mem_filter, hcore.n_eq]
    by_cases hjx : j = x
    · subst hjx
      rw [hreadx, hpx, hcx]
      simp [hcore.i_eq]
    · rw [hreads j hjn hjx, hbq j hjn hjx, hcore.i_eq, hsh.qual_eq]
      simp [hjn, hjx]
      tauto
  have hlen : ¬ (sortUniq st.n cm2).length > st.t := by
    rw [hR, hcore.t_eq]
    exact Nat.not_lt.2 (accO_length hS h)
  have hok := jlReadOpen_ok st I cm2 hck hlen
  generalize hst1 : ({ st with
          a := (List.range st.n).map (fun j => if (j != st.i && st.qual.contains j) then (parseOpen G.q (I.bq j)).2.1 else getI st.a j),
          ha := (List.range st.n).map (fun j => if (j != st.i && st.qual.contains j) then (parseOpen G.q (I.bq j)).2.2.1 else getI st.ha j),
          compl := sortUniq st.n cm2, racc := sortUniq st.n cm2, todo := sortUniq st.n cm2 } : St) = st1 at hok
  have e_n : st1.n = st.n := by rw [← hst1]
  have e_t : st1.t = st.t := by rw [← hst1]
  have e_i : st1.i = st.i := by rw [← hst1]
  have e_sfb : st1.sfb = st.sfb := by rw [← hst1]
  have e_c : st1.c = st.c := by rw [← hst1]
  have e_hc : st1.hc = st.hc := by rw [← hst1]
  have e_C : st1.C = st.C := by rw [← hst1]
  have e_qual : st1.qual = st.qual := by rw [← hst1]
  have e_s : st1.s = st.s := by rw [← hst1]
  have e_sp : st1.sp = st.sp := by rw [← hst1]
  have e_a : st1.a = (List.range st.n).map (fun j => if (j != st.i && st.qual.contains j) then (parseOpen G.q (I.bq j)).2.1 else getI st.a j) := by rw [← hst1]
  have e_ha : st1.ha = (List.range st.n).map (fun j => if (j != st.i && st.qual.contains j) then (parseOpen G.q (I.bq j)).2.2.1 else getI st.ha j) := by rw [← hst1]
  have e_racc : st1.racc = accO G n CH QL Q := by rw [← hst1]; exact hR
  have e_todo : st1.todo = accO G n CH QL Q := by rw [← hst1]; exact hR
  obtain ⟨f_n, f_t, f_i, f_sfb, f_c, f_hc, f_C, f_qual, f_s, f_sp, f_a, f_ha, f_racc, f_todo⟩ :=
    jlRecNext_fields (G := G) st1
  refine ⟨_, _, _, _, hok, ?_, ?_, f_racc.trans e_racc, f_todo.trans e_todo, ?_, ?_, ?_, hbox.plen, ?_, ?_, ?_⟩
  · exact ⟨(f_n.trans e_n).trans hcore.n_eq, (f_t.trans e_t).trans hcore.t_eq, (f_i.trans e_i).trans hcore.i_eq,
      (f_sfb.trans e_sfb).trans hcore.sfb_eq, (f_c.trans e_c).trans hcore.c_eq, (f_hc.trans e_hc).trans hcore.hc_eq⟩
  · refine ⟨(f_C.trans e_C).trans hsh.C_eq, (f_qual.trans e_qual).trans hsh.qual_eq, ?_, ?_, ?_, ?_, ?_, ?_, ?_⟩
    · rw [f_s, e_s]; exact hsh.s_len
    · rw [f_sp, e_sp]; exact hsh.sp_len
    · intro j hj
      rw [f_s, e_s, f_sp, e_sp]; exact hsh.valid j hj
    · rw [f_a, e_a, List.length_map, List.length_range]; exact hcore.n_eq
    · rw [f_ha, e_ha, List.length_map, List.length_range]; exact hcore.n_eq
    · rw [f_a, e_a, hA x hxQ, hpx]
    · rw [f_ha, e_ha, hHA x hxQ, hpx]
  · intro j hj
    rw [f_a, e_a]; exact hA j hj
  · intro j hj
    rw [f_ha, e_ha]; exact hHA j hj
  · show ((List.range st.n).map _).length = n
    rw [List.length_map, List.length_range]; exact hcore.n_eq
  · intro j hj hjx
    show ((List.range st.n).map _).getD j [] = _
    rw [hcore.n_eq, getD_map_range _ _ hj, hreads j hj hjx]
    unfold leftO
    rw [← hbq j hj hjx, hbox.bq_eq j hj hjx]
  · intro hpos
    obtain ⟨it, rest, hcons⟩ : ∃ it rest, accO G n CH QL Q = it :: rest := by
      cases hl : accO G n CH QL Q with
      | nil => rw [hl] at hpos; simp at hpos
      | cons it rest => exact ⟨it, rest, rfl⟩
    have hit : it ∈ accO G n CH QL Q := by rw [hcons]; exact List.mem_cons_self
    have hitQ : it ∈ QL := ((accO_mem it).1 hit).2.1
    have hxR : x ∉ accO G n CH QL Q := fun hm => accO_not_honest hS h hm hx
    obtain ⟨o1, o2⟩ := jlRecNext_cons (G := G) st1 it rest (e_todo.trans hcons)
      (by rw [e_qual, hsh.qual_eq]; simpa using hitQ)
      (by rw [e_racc, e_i, hcore.i_eq]; simpa using hxR)
      (by rw [e_qual, hsh.qual_eq, e_i, hcore.i_eq]; simpa using hxQ)
    refine ⟨o2, ?_⟩
    rw [o1, e_racc, f_s, f_sp, hcons]
    rfl
  · intro hz
    have hnil : accO G n CH QL Q = [] := List.length_eq_zero_iff.1 hz.symm
    obtain ⟨_, o2, o3⟩ := jlRecNext_nil (G := G) st1 (e_todo.trans hnil)
    refine ⟨o2, ?_⟩
    rw [o3, f_a, e_qual, hsh.qual_eq]

end


section
variable [Fact (Nat.Prime (grp G).p.natAbs)] {Q : Nat → List (Tag × Int)} {CH : List (List Int)} {QL : List Nat}

theorem cfg_len5 (hS : Setup G ins n t) (r : Nat) : (cfg G ins n t r).length = n := by
  unfold cfg
  rw [runRounds_length, initParties_length _ _ _ hS.hlen]

theorem bOut_eq (r j : Nat) (hj : j < (cfg G ins n t r).length) :
    bOut G ins n t r j = (outOf (flipStep G ins n t r) (cfg G ins n t r) j hj).1 := by
  unfold bOut
  rw [dif_pos hj]

/-- honest `x` after round 5 -/
theorem party_step (hS : Setup G ins n t) (h : Inv5 G ins n t Q CH QL) (Z : Nat → Int) {x : Nat}
    (hx : HonIdx ins n x) :
    ∃ P, (cfg G ins n t (6 + 0))[x]? = some P ∧
      P.dev = {} ∧ P.fs.dead = false ∧ P.err = none ∧ Core ins n t x P.st ∧
      RecSt G ins n t CH QL (accO G n CH QL Q) (fun j => (pubO G Q j).2.1) Z 0 x P.st ∧
      (0 < (accO G n CH QL Q).length → P.status = .run ∧
        Boxes n x P.inbox (fun j => leftO G QL Q j ++ bOut G ins n t 5 j) ∧
        leftO G QL Q x ++ bOut G ins n t 5 x =
          [(tagRec (accO G n CH QL Q), getI P.st.s ((accO G n CH QL Q).getD 0 0)),
           (tagRec (accO G n CH QL Q), getI P.st.sp ((accO G n CH QL Q).getD 0 0))]) ∧
      (0 = (accO G n CH QL Q).length → P.status = .ret true ∧ P.st.coin = some (sumMod G.q P.st.a QL)) ∧
      (∀ j, j ∈ QL → getI P.st.a j = (pubO G Q j).2.1) ∧
      (∀ j, j ∈ QL → getI P.st.ha j = (pubO G Q j).2.2.1) := by
  obtain ⟨P, hget, hal, hcore, hsh, hbox⟩ := h.party x hx
  have hlen := cfg_len5 hS 5
  have hxl : x < (cfg G ins n t 5).length := by rw [hlen]; exact hx.1
  have hPx : (cfg G ins n t 5)[x] = P := by
    have := List.getElem?_eq_getElem hxl
    rw [hget] at this
    exact (Option.some.inj this).symm
  have hlive : P.live = true := by
    unfold Party.live
    rw [hal.running, hal.notDead, hal.noErr]
    rfl
  obtain ⟨st', I', ops, s, hstep, hcore', hsh', hracc, htodo, hA, hHA, hIb, hIp, hIq, hrun, hret⟩ :=
    readOpen_step hS h hx P.st P.inbox hcore hsh hbox
  obtain ⟨fs', hsp, hfs⟩ := stepParty_honest (cfg G ins n t 5).length (flipStep G ins n t 5 x) P hal.dev hlive
    st' I' ops s hstep
  have hstepped : stepped (flipStep G ins n t 5) (cfg G ins n t 5) x hxl =
      { P with st := st', inbox := I', fs := fs', status := s } := by
    unfold stepped
    rw [hPx, hsp]
  obtain ⟨P', hP', d1, d2, d3, d4, d5, d6, d7, d8, -⟩ := runRound_get (flipStep G ins n t 5) (cfg G ins n t 5) x hxl
  rw [hstepped] at d1 d2 d3 d4 d5 d6 d7 d8
  have h6 : cfg G ins n t (6 + 0) = runRound (flipStep G ins n t 5) (cfg G ins n t 5) := cfg_succ G ins n t 5
  have hpx := pubO_honest hS h hx
  have hxQ : x ∈ QL := h.qual.hon_mem x hx
  refine ⟨P', by rw [h6]; exact hP', d1.trans hal.dev, by rw [d2]; exact hfs, d5.trans hal.noErr, ?_, ?_, ?_, ?_, ?_, ?_⟩
  · rw [d3]; exact hcore'
  · rw [d3]
    exact ⟨hsh', hracc, htodo, fun j hj _ => hA j hj, fun m hm _ => absurd hm (Nat.not_lt_zero m)⟩
  · intro hpos
    obtain ⟨r1, r2⟩ := hrun hpos
    refine ⟨d4.trans r1, ⟨d6.trans hIb, d7.trans hIp, ?_⟩, ?_⟩
    · intro j hj hjx
      have hjl : j < (cfg G ins n t 5).length := by rw [hlen]; exact hj
      show P'.inbox.b.getD j [] = _
      rw [d8 j (by show j < I'.b.length; rw [hIb]; exact hj), dif_pos ⟨hjx, hjl⟩, bOut_eq 5 j hjl]
      show I'.bq j ++ _ = _
      rw [hIq j hj hjx]
    · rw [d3, bOut_eq 5 x hxl]
      unfold outOf
      rw [hPx, hsp]
      show leftO G QL Q x ++ bsOf ops = _
      rw [r2]
      unfold leftO
      have : QL.contains x = true := by simpa using hxQ
      rw [if_pos this, hpx]
      rfl
  · intro hz
    obtain ⟨r1, r2⟩ := hret hz
    rw [d3]
    exact ⟨d4.trans r1, r2⟩
  · rw [d3]; exact hA
  · rw [d3]; exact hHA

end

end T5

open T5 in
/-- after round 5 the honest parties agree on the opened shares and on the list of the accused -/
theorem invRec0 [Fact (Nat.Prime (grp G).p.natAbs)] (hS : Setup G ins n t)
    {Q : Nat → List (Tag × Int)} {CH : List (List Int)} {QL : List Nat} (h : Inv5 G ins n t Q CH QL)
    (Z : Nat → Int) :
    ∃ Q' R A HA, InvRec G ins n t Q' CH QL R A HA Z 0 := by
  refine ⟨fun j => leftO G QL Q j ++ bOut G ins n t 5 j, accO G n CH QL Q, fun j => (pubO G Q j).2.1,
    fun j => (pubO G Q j).2.2.1, ?_⟩
  have hmemR : ∀ j, j ∈ QL → j ∉ accO G n CH QL Q →
      (pubO G Q j).2.2.2 = false ∧ chkO G CH Q j = false := by
    intro j hj hnR
    have hjn := h.qual.lt_n j hj
    have := mt (accO_mem (G := G) (n := n) (CH := CH) (QL := QL) (Q := Q) j).2 hnR
    constructor
    · cases hb : (pubO G Q j).2.2.2 with
      | false => rfl
      | true => exact absurd ⟨hjn, hj, Or.inl hb⟩ this
    · cases hb : chkO G CH Q j with
      | false => rfl
      | true => exact absurd ⟨hjn, hj, Or.inr hb⟩ this
  refine
    { qual := h.qual
      r_sorted := accO_sorted
      r_sub := fun j hj => ⟨((accO_mem j).1 hj).2.1, accO_not_honest hS h hj⟩
      k_le := Nat.zero_le _
      open_ok := ?_
      open_hon := ?_
      open_occ := ?_
      party := ?_ }
  · intro j hj hnR
    refine ⟨(parseOpen_absLt hS.hG (Q j)).1, (parseOpen_absLt hS.hG (Q j)).2, ?_⟩
    exact (chkO_spec hS.hG CH Q j ((h.qual.rows j hj).2 0 (by omega))).2.1 (hmemR j hj hnR).2
  · intro j hj
    show (pubO G Q j).2.1 = _ ∧ (pubO G Q j).2.2.1 = _
    rw [pubO_honest hS h hj]
    exact ⟨rfl, rfl⟩
  · intro j hj _
    obtain ⟨y, hy⟩ := exists_honest hS
    obtain ⟨P, hP, -, -, -, -, -, -, -, hA, hHA⟩ := party_step hS h Z hy
    exact ⟨⟨6, y, P, j, hP, hy, Or.inr (Or.inr (Or.inl (hA j hj).symm))⟩,
      ⟨6, y, P, j, hP, hy, Or.inr (Or.inr (Or.inr (Or.inl (hHA j hj).symm)))⟩⟩
  · intro x hx
    obtain ⟨P, hP, e1, e2, e3, e4, e5, e6, e7, -, -⟩ := party_step hS h Z hx
    exact ⟨P, hP, e1, e2, e3, e4, e5, e6, e7⟩

end Tmcg.JlProofs
