import TmcgProofs.DkgAgree
import Tmcg.Model.CgjkrSign
/-
  C16, run level, auxiliary lemmas for TmcgProofs/CgjkrSignRunB.lean (nothing here depends on
  TmcgProofs/CgjkrSignRun.lean):

    * `prog_tailNR`       every action of a round of `prog m t` after the first one is non-reading
    * `emitOps_frame`     `emitOps` keeps `r`, `s`, `msg`
    * `doAct_frame`       an action that goes on keeps `msg`, and keeps `r` unless it is `shRead 0`
    * `doAct_done_true_B` an action that ends `Sign` with `true` reads, and `shRead 1` does the same at that state
                          (the statement "then `a = .shRead 1`" is false: `shRead ph`, `ph ≥ 2`, behaves like `shRead 1`)
    * `runRound_party_st`, `stepParty_cases`   state and status of one party over one round
-/
namespace Tmcg.CgjkrSignRunP
open Tmcg Tmcg.Powm Tmcg.Dkg Tmcg.DkgP Tmcg.Cgjkr Tmcg.CgjkrSign

/-! ### rounds of the schedule -/

/-- every element after the head is non-reading -/
def TailNR (l : List Act) : Prop := ∀ a ∈ l.tail, a.reads = false

theorem groupRounds_tailNR (l cur : List Act) (acc : List (List Act)) (hcur : TailNR cur)
    (hacc : ∀ r ∈ acc, TailNR r) : ∀ r ∈ groupRounds l cur acc, TailNR r := by
  induction l generalizing cur acc with
  | nil =>
    intro r hr
    simp only [groupRounds] at hr
    split at hr
    · exact hacc r hr
    · rcases List.mem_append.1 hr with h | h
      · exact hacc r h
      · simp only [List.mem_singleton] at h
        subst h
        exact hcur
  | cons a rest ih =>
    intro r hr
    simp only [groupRounds] at hr
    split at hr
    · refine ih [a] (acc ++ [cur]) ?_ ?_ r hr
      · intro x hx
        simp at hx
      · intro r' hr'
        rcases List.mem_append.1 hr' with h | h
        · exact hacc r' h
        · simp only [List.mem_singleton] at h
          subst h
          exact hcur
    · rename_i hc
      refine ih (cur ++ [a]) acc ?_ hacc r hr
      intro x hx
      cases cur with
      | nil => simp at hx
      | cons c cs =>
        simp only [List.cons_append, List.tail_cons, List.mem_append, List.mem_singleton] at hx
        rcases hx with h | h
        · exact hcur x (by simpa using h)
        · subst h
          simpa using hc

theorem prog_tailNR (m t r : Nat) : TailNR ((prog m t).getD r []) := by
  have h := groupRounds_tailNR (actions m t) [] [] (by intro x hx; simp at hx) (by intro r hr; simp at hr)
  rw [List.getD_eq_getElem?_getD]
  cases hg : (prog m t)[r]? with
  | none => intro x hx; simp at hx
  | some l =>
    exact h l (List.mem_of_getElem? hg)

/-! ### frames -/

theorem emitOps_frame (st : SSt) (ops acc : List Op) :
    (emitOps st ops acc).1.r = st.r ∧ (emitOps st ops acc).1.s = st.s ∧ (emitOps st ops acc).1.msg = st.msg := by
  induction ops generalizing st acc with
  | nil => simp [emitOps]
  | cons op rest ih =>
    cases op with
    | bc tag v =>
      simp only [emitOps]
      exact ih _ _
    | pv j v =>
      simp only [emitOps]
      exact ih _ _

/-- postcondition of a computation in `Except Err` (a structure, so that `apply` does not unfold it) -/
structure Post {α} (Q : α → Prop) (x : Except Err α) : Prop where
  h : ∀ o, x = .ok o → Q o

theorem post_pure {α} (Q : α → Prop) (o : α) (h : Q o) : Post Q (pure o) := by
  constructor
  intro o' ho
  cases ho
  exact h

theorem post_ok {α} (Q : α → Prop) (o : α) (h : Q o) : Post Q (.ok o) := post_pure Q o h

theorem post_bind {α β} (Q : β → Prop) (x : Except Err α) (f : α → Except Err β) (h : ∀ a, Post Q (f a)) :
    Post Q (x >>= f) := by
  constructor
  intro o ho
  cases x with
  | error e => cases ho
  | ok a => exact (h a).h o ho

theorem post_map {α β} (Q : β → Prop) (x : Except Err α) (f : α → β) (h : ∀ a, Q (f a)) :
    Post Q (f <$> x) := by
  constructor
  intro o ho
  cases x with
  | error e => cases ho
  | ok a => cases ho; exact h a

/-- what every action keeps -/
def FrQ (st : SSt) : AOut → Prop
  | .go st' _ _ => st'.msg = st.msg ∧ st'.r = st.r
  | .done _ _ _ _ => True

theorem post_fail (st st0 : SSt) (I : Inbox) : Post (FrQ st) (CgjkrSign.fail st0 I) := by
  constructor
  intro o ho
  cases ho
  trivial

macro "frame_step" : tactic => `(tactic| first
  | apply post_fail
  | (apply post_pure)
  | (apply post_ok)
  | (apply post_bind; intro _)
  | (apply post_map; intro _)
  | split)

macro "frame_all" : tactic => `(tactic| (
  unfold doAct
  dsimp only
  repeat' frame_step
  all_goals first
    | exact ⟨rfl, rfl⟩
    | trivial
    | (simp [FrQ, setPv, setRv]; done)))

theorem doAct_frame_ne (G : Dkg.Grp) (a : Act) (st : SSt) (I : Inbox) (ha : ∀ ph, a ≠ .shRead ph) :
    Post (FrQ st) (doAct G a st I) := by
  cases a
  case shRead ph => exact absurd rfl (ha ph)
  all_goals frame_all

/-- what `shRead ph` keeps -/
def FrS (st : SSt) (ph : Nat) : AOut → Prop
  | .go st' _ _ => st'.msg = st.msg ∧ (ph ≠ 0 → st'.r = st.r)
  | .done _ _ _ _ => True

theorem post_failS (st st0 : SSt) (ph : Nat) (I : Inbox) : Post (FrS st ph) (CgjkrSign.fail st0 I) := by
  constructor
  intro o ho
  cases ho
  trivial

theorem doAct_frame_sh (G : Dkg.Grp) (ph : Nat) (st : SSt) (I : Inbox) :
    Post (FrS st ph) (doAct G (.shRead ph) st I) := by
  unfold doAct
  dsimp only
  repeat' (first
    | apply post_failS
    | (apply post_pure)
    | (apply post_ok)
    | (apply post_bind; intro _)
    | split)
  all_goals first
    | trivial
    | exact ⟨rfl, fun h' => absurd ‹_› h'⟩

/-- an action that goes on keeps `msg`, and keeps `r` unless it is `shRead 0` -/
theorem doAct_frame (G : Dkg.Grp) (a : Act) (st st' : SSt) (I I' : Inbox) (ops : List Op)
    (h : doAct G a st I = .ok (.go st' I' ops)) :
    st'.msg = st.msg ∧ ((∀ ph, a = .shRead ph → ph ≠ 0) → st'.r = st.r) := by
  by_cases ha : ∀ ph, a ≠ .shRead ph
  · have := (doAct_frame_ne G a st I ha).h _ h
    exact ⟨this.1, fun _ => this.2⟩
  · have ha' : ∃ ph, a = .shRead ph := by
      by_contra hc
      exact ha (fun ph e => hc ⟨ph, e⟩)
    obtain ⟨ph, rfl⟩ := ha'
    have := (doAct_frame_sh G ph st I).h _ h
    exact ⟨this.1, fun h2 => this.2 (h2 ph rfl)⟩

/-! ### the only way `Sign` returns `true`

  NB the statement "`doAct G a … = .ok (.done … true)` implies `a = .shRead 1`" is FALSE in the model:
  `doAct G (.shRead ph)` with any `ph ≠ 0` behaves exactly like `.shRead 1` (the model only tests `ph = 0`), e.g.
  `a = .shRead 2`.  (The schedule `actions m t` only contains `.shRead 0` and `.shRead 1`.)  What holds for every
  action: it is a reading action and `.shRead 1` gives the same result at the same state. -/

def NoTrue : AOut → Prop
  | .go _ _ _ => True
  | .done _ _ _ b => b = false

theorem post_failN (st0 : SSt) (I : Inbox) : Post NoTrue (CgjkrSign.fail st0 I) := by
  constructor
  intro o ho
  cases ho
  rfl

theorem doAct_noTrue_ne (G : Dkg.Grp) (a : Act) (st : SSt) (I : Inbox) (ha : ∀ ph, a ≠ .shRead ph) :
    Post NoTrue (doAct G a st I) := by
  cases a
  case shRead ph => exact absurd rfl (ha ph)
  all_goals
    unfold doAct
    dsimp only
    repeat' (first
      | apply post_failN
      | (apply post_pure)
      | (apply post_ok)
      | (apply post_bind; intro _)
      | split)
    all_goals trivial

def NoTrueS (ph : Nat) : AOut → Prop
  | .go _ _ _ => True
  | .done _ _ _ b => b = true → ph ≠ 0

theorem post_failNS (ph : Nat) (st0 : SSt) (I : Inbox) : Post (NoTrueS ph) (CgjkrSign.fail st0 I) := by
  constructor
  intro o ho
  cases ho
  intro h
  cases h

theorem doAct_noTrue_sh (G : Dkg.Grp) (ph : Nat) (st : SSt) (I : Inbox) :
    Post (NoTrueS ph) (doAct G (.shRead ph) st I) := by
  unfold doAct
  dsimp only
  repeat' (first
    | apply post_failNS
    | (apply post_pure)
    | (apply post_ok)
    | (apply post_bind; intro _)
    | split)
  all_goals first
    | trivial
    | exact fun _ => ‹_›

theorem doAct_shRead_ne0 (G : Dkg.Grp) (ph : Nat) (hph : ph ≠ 0) (st : SSt) (I : Inbox) :
    doAct G (.shRead ph) st I = doAct G (.shRead 1) st I := by
  unfold doAct
  simp [hph]

/-- an action that ends `Sign` with `true` is a reading action, and `shRead 1` (step 2f) does the same at the
    same state -/
theorem doAct_done_true_B (G : Dkg.Grp) (a : Act) (st st' : SSt) (I I' : Inbox) (ops : List Op)
    (h : doAct G a st I = .ok (.done st' I' ops true)) :
    a.reads = true ∧ doAct G (.shRead 1) st I = .ok (.done st' I' ops true) := by
  by_cases ha : ∀ ph, a ≠ .shRead ph
  · have := (doAct_noTrue_ne G a st I ha).h _ h
    cases this
  · have ha' : ∃ ph, a = .shRead ph := by
      by_contra hc
      exact ha (fun ph e => hc ⟨ph, e⟩)
    obtain ⟨ph, rfl⟩ := ha'
    have hph : ph ≠ 0 := (doAct_noTrue_sh G ph st I).h _ h rfl
    refine ⟨rfl, ?_⟩
    rw [← doAct_shRead_ne0 G ph hph]
    exact h

/-! ### one party over one round -/

theorem stepParty_cases {σ} (n : Nat) (step : Step σ) (P : Party σ) :
    ((stepParty n step P).1.st = P.st ∧ (stepParty n step P).1.status = P.status) ∨
    (P.live = true ∧ ∃ I ops, step P.st P.inbox =
      .ok ((stepParty n step P).1.st, I, ops, (stepParty n step P).1.status)) := by
  unfold stepParty
  by_cases hl : P.live = true
  · simp only [hl, Bool.not_true, Bool.false_eq_true, if_false]
    cases hs : step P.st P.inbox with
    | error e => left; exact ⟨rfl, rfl⟩
    | ok r =>
      obtain ⟨st, I, ops, status⟩ := r
      right
      exact ⟨trivial, I, ops, rfl⟩
  · left
    simp [hl]

theorem runRound_party_st {σ} (steps : Nat → Step σ) (ps : List (Party σ)) (k : Nat) (P' : Party σ)
    (hP' : (runRound steps ps)[k]? = some P') :
    ∃ P, ps[k]? = some P ∧ P'.st = (stepParty ps.length (steps k) P).1.st ∧
      P'.status = (stepParty ps.length (steps k) P).1.status := by
  have hk : k < ps.length := by
    have := (List.getElem?_eq_some_iff.1 hP').1
    rwa [ag_runRound_length] at this
  refine ⟨ps[k], List.getElem?_eq_getElem hk, ?_⟩
  obtain ⟨P2, h2, hD⟩ := ag_runRound_party steps ps k ps[k] (List.getElem?_eq_getElem hk)
  rw [hP'] at h2
  cases h2
  exact ⟨hD.st, hD.status⟩

end Tmcg.CgjkrSignRunP
