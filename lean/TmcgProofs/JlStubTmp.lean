import TmcgProofs.JlInv
import TmcgProofs.JlArith
import TmcgProofs.JlT0
namespace Tmcg.JlProofs
open Tmcg Tmcg.Powm Tmcg.Vtmf Tmcg.Grp Tmcg.Jl
variable {G : Jl.Grp} {ins : List PartyIn} {n t : Nat}
theorem inv2 [Fact (Nat.Prime (grp G).p.natAbs)] (hS : Setup G ins n t)
    {Q : Nat → List (Tag × Int)} {Row : Nat → List Int} (h : Inv1 G ins n t Q Row) :
    ∃ Q' CH Flag, Inv2 G ins n t Q' CH Flag := by sorry
theorem inv3 [Fact (Nat.Prime (grp G).p.natAbs)] (hS : Setup G ins n t)
    {Q : Nat → List (Tag × Int)} {CH : List (List Int)} {Flag : Nat → Bool} (h : Inv2 G ins n t Q CH Flag) :
    ∃ Q' W, Inv3 G ins n t Q' CH Flag W := by sorry
theorem inv4 [Fact (Nat.Prime (grp G).p.natAbs)] (hS : Setup G ins n t)
    {Q : Nat → List (Tag × Int)} {CH : List (List Int)} {Flag : Nat → Bool} {W : Nat → List Nat}
    (h : Inv3 G ins n t Q CH Flag W) :
    ∃ Q' T BadC CNT, Inv4 G ins n t Q' CH Flag T BadC CNT := by sorry
theorem inv5 [Fact (Nat.Prime (grp G).p.natAbs)] (hS : Setup G ins n t)
    {Q : Nat → List (Tag × Int)} {CH : List (List Int)} {Flag : Nat → Bool} {T : Nat → List Nat}
    {BadC : Nat → Bool} {CNT : List Nat} (h : Inv4 G ins n t Q CH Flag T BadC CNT) :
    ∃ Q' QL, Inv5 G ins n t Q' CH QL := by sorry
theorem invRec0 [Fact (Nat.Prime (grp G).p.natAbs)] (hS : Setup G ins n t)
    {Q : Nat → List (Tag × Int)} {CH : List (List Int)} {QL : List Nat} (h : Inv5 G ins n t Q CH QL)
    (Z : Nat → Int) :
    ∃ Q' R A HA, InvRec G ins n t Q' CH QL R A HA Z 0 := by sorry
theorem invRecStep [Fact (Nat.Prime (grp G).p.natAbs)] (hS : Setup G ins n t)
    {Q : Nat → List (Tag × Int)} {CH : List (List Int)} {QL R : List Nat} {A HA : Nat → Int} {k : Nat}
    (fam : Nat → Polynomial (Zq G))
    (hfam : ∀ j, j < n → BindsRun G ins n t (getRow CH j) (fam j))
    (h : InvRec G ins n t Q CH QL R A HA (committed G fam) k) (hk : k < R.length) :
    ∃ Q', InvRec G ins n t Q' CH QL R A HA (committed G fam) (k + 1) := by sorry
end Tmcg.JlProofs
