import TmcgProofs.JlInv
import TmcgProofs.JlArith
/-
  C17, multi-party part: transition round 2 (jlVerify) of the run invariants (TmcgProofs/JlInv.lean).
-/
namespace Tmcg.JlProofs
open Tmcg Tmcg.Powm Tmcg.Vtmf Tmcg.Grp Tmcg.Jl

variable {G : Jl.Grp} {ins : List PartyIn} {n t : Nat}

set_option linter.unusedSectionVars false
set_option linter.unusedVariables false

namespace T2

/-! ### list helpers -/

theorem t2_getI_map_range (n : Nat) (f : Nat → Int) (j : Nat) (hj : j < n) :
    getI ((List.range n).map f) j = f j := by
  simp [getI, List.getD_eq_getElem?_getD, List.getElem?_map, List.getElem?_range hj]

theorem t2_getD_map_range {α} (n : Nat) (f : Nat → α) (d : α) (j : Nat) (hj : j < n) :
    ((List.range n).map f).getD j d = f j := by
  simp [List.getD_eq_getElem?_getD, List.getElem?_map, List.getElem?_range hj]

theorem t2_getI_zeros_set (n x j : Nat) (v : Int) :
    getI ((zeros n).set x v) j = if x = j ∧ j < n then v else 0 := by
  unfold getI
  rw [glue_getD_set]
  have hz : (zeros n).getD j 0 = 0 := by
    simp only [zeros, List.getD_eq_getElem?_getD, List.getElem?_replicate]
    split <;> rfl
  rw [hz]
  simp [zeros]

theorem t2_mem_sortUniq (n : Nat) (l : List Nat) (j : Nat) : j ∈ sortUniq n l ↔ j < n ∧ j ∈ l := by
  simp [sortUniq, List.mem_filter, List.mem_range]

theorem t2_sortUniq_pairwise (n : Nat) (l : List Nat) : (sortUniq n l).Pairwise (· < ·) :=
  List.Pairwise.filter _ List.pairwise_lt_range

theorem t2_bsOf_map_bc (tag : Tag) (f : Nat → Int) (l : List Nat) :
    bsOf (l.map (fun j => Op.bc tag (f j))) = tagged tag (l.map f) := by
  induction l with
  | nil => rfl
  | cons a l ih => simp [tagged] at ih ⊢; exact ih

theorem t2_absLt_zero (hG : ValidGrp G) : AbsLt G 0 := by
  have := q_pos hG
  unfold AbsLt
  omega

/-! ### `parseShare` -/

theorem t2_clip_abs (hG : ValidGrp G) (a : Int) : AbsLt G (if absGe a G.q = true then 0 else a) := by
  by_cases hc : absGe a G.q = true
  · rw [if_pos hc]; exact t2_absLt_zero hG
  · rw [if_neg hc]; exact (absGe_false_iff G a).1 (by simpa using hc)

theorem t2_parseShare_abs1 (hG : ValidGrp G) (pq : List Int) (v : Int)
    (h : (parseShare G.q pq).2.1 = some v) : AbsLt G v := by
  rcases pq with _ | ⟨a, _ | ⟨b, r⟩⟩
  · simp [parseShare] at h
  · simp only [parseShare, Option.some.injEq] at h
    subst h
    exact t2_clip_abs hG a
  · simp only [parseShare, Option.some.injEq] at h
    subst h
    exact t2_clip_abs hG a

theorem t2_parseShare_abs2 (hG : ValidGrp G) (pq : List Int) (v : Int)
    (h : (parseShare G.q pq).2.2.1 = some v) : AbsLt G v := by
  rcases pq with _ | ⟨a, _ | ⟨b, r⟩⟩
  · simp [parseShare] at h
  · simp [parseShare] at h
  · simp only [parseShare, Option.some.injEq] at h
    subst h
    exact t2_clip_abs hG b

theorem t2_parseShare_hon (a b : Int) (ha : AbsLt G a) (hb : AbsLt G b) :
    parseShare G.q [a, b] = ([], some a, some b, false) := by
  have ha' := (absGe_false_iff G a).2 ha
  have hb' := (absGe_false_iff G b).2 hb
  simp [parseShare, ha', hb']

/-! ### equation (4) -/

theorem t2_check4_spec (hG : ValidGrp G) [Fact (Nat.Prime (grp G).p.natAbs)] (st : St)
    (C : List (List Int)) (s sp : List Int) :
    ∀ (js cm : List Nat), (∀ j ∈ js, AbsLt G (getI s j) ∧ AbsLt G (getI sp j)) →
    ∃ cm', check4 G st C s sp js cm = .ok cm' ∧
      ∀ k, k ∈ cm' ↔ k ∈ cm ∨
        (k ∈ js ∧ ¬ com G (getI s k) (getI sp k) = rowF G (getRow C k) (st.i + 1)) := by
  intro js
  induction js with
  | nil => intro cm _; exact ⟨cm, rfl, by simp⟩
  | cons j js ih =>
    intro cm habs
    obtain ⟨lhs, hl, hl0, hl1, hlv⟩ := pedS_val hG _ _ (habs j (by simp)).1 (habs j (by simp)).2
    obtain ⟨rhs, hr, hr0, hr1, hrv⟩ := commitProd_val hG (st.i + 1) (getRow C j)
    obtain ⟨cm', hc, hm⟩ := ih (if lhs != rhs then cm ++ [j] else cm)
      (fun k hk => habs k (List.mem_cons_of_mem _ hk))
    refine ⟨cm', ?_, ?_⟩
    · simp only [check4, hl, hr, bind, Except.bind]
      exact hc
    · intro k
      rw [hm]
      have heq : (lhs != rhs) = true ↔
          ¬ com G (getI s j) (getI sp j) = rowF G (getRow C j) (st.i + 1) := by
        rw [← hlv, ← hrv]
        simp only [bne_iff_ne, ne_eq]
        constructor
        · intro hne he
          exact hne (eq_of_toF_eq (G := grp G) hG.valid ⟨hl0, hl1⟩ ⟨hr0, hr1⟩ he)
        · intro hne he
          exact hne (by rw [he])
      by_cases hb : (lhs != rhs) = true
      · simp only [hb, if_true, List.mem_append, List.mem_cons, List.not_mem_nil, or_false]
        constructor
        · rintro ((h1 | h1) | h1)
          · left; exact h1
          · right; subst h1; exact ⟨Or.inl rfl, heq.1 hb⟩
          · right; exact ⟨Or.inr h1.1, h1.2⟩
        · rintro (h1 | ⟨h1 | h1, h2⟩)
          · left; left; exact h1
          · left; right; exact h1
          · right; exact ⟨h1, h2⟩
      · simp only [hb, Bool.false_eq_true, if_false, List.mem_cons]
        constructor
        · rintro (h1 | h1)
          · left; exact h1
          · right; exact ⟨Or.inr h1.1, h1.2⟩
        · rintro (h1 | ⟨h1 | h1, h2⟩)
          · left; exact h1
          · subst h1; exact absurd (heq.2 h2) hb
          · right; exact ⟨h1, h2⟩

/-! ### the step -/

/-- the shares held after the private values are read -/
def vS (G : Jl.Grp) (st : St) (I : Inbox) : List Int :=
  (List.range st.n).map (fun j =>
    if j = st.i then getI st.s j
    else match (parseShare G.q (I.pq j)).2.1 with | some v => v | none => getI st.s j)

def vSp (G : Jl.Grp) (st : St) (I : Inbox) : List Int :=
  (List.range st.n).map (fun j =>
    if j = st.i then getI st.sp j
    else match (parseShare G.q (I.pq j)).2.2.1 with | some v => v | none => getI st.sp j)

/-- the complaints before equation (4) -/
def vCm2 (G : Jl.Grp) (st : St) (I : Inbox) : List Nat :=
  st.compl ++ (List.range st.n).filter (fun j => j != st.i && (parseShare G.q (I.pq j)).2.2.2)

/-- the complaint list `jlVerify` computes (and broadcasts) -/
def verifyCompl (G : Jl.Grp) (st : St) (I : Inbox) : List Nat :=
  match check4 G st st.C (vS G st I) (vSp G st I) (List.range st.n) (vCm2 G st I) with
  | .ok cm3 => sortUniq st.n cm3
  | .error _ => []

theorem t2_jlVerify_ok (st : St) (I : Inbox) (cm3 : List Nat)
    (h : check4 G st st.C (vS G st I) (vSp G st I) (List.range st.n) (vCm2 G st I) = .ok cm3) :
    jlVerify G st I = .ok
      ({ st with s := vS G st I, sp := vSp G st I,
                 cnt := (List.range st.n).map (fun j => if (verifyCompl G st I).contains j then 1 else 0),
                 complainers := (List.range st.n).map (fun j => if (verifyCompl G st I).contains j then [st.i] else []),
                 compl := [] },
       { I with p := (List.range st.n).map (fun j => if j = st.i then I.pq j else (parseShare G.q (I.pq j)).1) },
       (verifyCompl G st I).map (fun (j : Nat) => Op.bc tagShare (j : Int)) ++ [Op.bc tagShare (st.n : Int)],
       .run) := by
  have hv : verifyCompl G st I = sortUniq st.n cm3 := by
    unfold verifyCompl
    rw [h]
  have e : jlVerify G st I =
      Except.bind (check4 G st st.C (vS G st I) (vSp G st I) (List.range st.n) (vCm2 G st I))
        (fun cm3 => .ok
          ({ st with s := vS G st I, sp := vSp G st I,
                     cnt := (List.range st.n).map (fun j => if (sortUniq st.n cm3).contains j then 1 else 0),
                     complainers := (List.range st.n).map (fun j => if (sortUniq st.n cm3).contains j then [st.i] else []),
                     compl := [] },
           { I with p := (List.range st.n).map (fun j => if j = st.i then I.pq j else (parseShare G.q (I.pq j)).1) },
           (sortUniq st.n cm3).map (fun (j : Nat) => Op.bc tagShare (j : Int)) ++ [Op.bc tagShare (st.n : Int)],
           .run)) := rfl
  rw [e, h, hv]
  rfl

/-- the complaints honest `x` computes in round 2 -/
def wOf (G : Jl.Grp) (ins : List PartyIn) (n t x : Nat) : List Nat :=
  match (cfg G ins n t 2)[x]? with
  | some P => verifyCompl G P.st P.inbox
  | none => []

theorem t2_cfg_length (hlen : ins.length = n) (r : Nat) : (cfg G ins n t r).length = n := by
  unfold cfg
  rw [runRounds_length, initParties_length n t ins hlen]

theorem t2_live {P : Party} (h : Alive P) : P.live = true := by
  simp [Party.live, h.running, h.notDead, h.noErr]

/-- what `jlVerify` computes on the state of an honest party after round 1 -/
theorem t2_verify [Fact (Nat.Prime (grp G).p.natAbs)] (hS : Setup G ins n t)
    {Q : Nat → List (Tag × Int)} {CH : List (List Int)} {Flag : Nat → Bool} (h : Inv2 G ins n t Q CH Flag)
    {x : Nat} (hx : HonIdx ins n x) (st : St) (I : Inbox)
    (hcore : Core ins n t x st) (hC : st.C = CH)
    (hcompl : st.compl = (List.range n).filter (fun j => Flag j))
    (hs : st.s = (zeros n).set x (shareOf G ins t x x))
    (hsp : st.sp = (zeros n).set x (hshareOf G ins t x x))
    (hpq : ∀ j, HonIdx ins n j → j ≠ x → I.pq j = [shareOf G ins t j x, hshareOf G ins t j x]) :
    (∃ cm3, check4 G st st.C (vS G st I) (vSp G st I) (List.range st.n) (vCm2 G st I) = .ok cm3) ∧
    (∀ j, j < n → AbsLt G (getI (vS G st I) j) ∧ AbsLt G (getI (vSp G st I) j)) ∧
    (∀ j ∈ verifyCompl G st I, j < n ∧ ¬ HonIdx ins n j) ∧
    (∀ j, j < n → Flag j = true → j ∈ verifyCompl G st I) ∧
    (∀ j, j < n → j ∉ verifyCompl G st I →
      ValidShare G (getRow CH j) x (getI (vS G st I) j) (getI (vSp G st I) j)) := by
  have hG := hS.hG
  have hn := hcore.n_eq
  have hi := hcore.i_eq
  have hold : ∀ j, AbsLt G (getI st.s j) ∧ AbsLt G (getI st.sp j) := by
    intro j
    rw [hs, hsp, t2_getI_zeros_set, t2_getI_zeros_set]
    by_cases hc : x = j ∧ j < n
    · rw [if_pos hc, if_pos hc]
      exact ⟨(evalShare_range hG _ _).absLt, (evalShare_range hG _ _).absLt⟩
    · rw [if_neg hc, if_neg hc]
      exact ⟨t2_absLt_zero hG, t2_absLt_zero hG⟩
  have habs : ∀ j, j < n → AbsLt G (getI (vS G st I) j) ∧ AbsLt G (getI (vSp G st I) j) := by
    intro j hj
    unfold vS vSp
    rw [hn, t2_getI_map_range _ _ _ hj, t2_getI_map_range _ _ _ hj]
    constructor
    · split
      · exact (hold j).1
      · split
        · next v hv => exact t2_parseShare_abs1 hG _ v hv
        · exact (hold j).1
    · split
      · exact (hold j).2
      · split
        · next v hv => exact t2_parseShare_abs2 hG _ v hv
        · exact (hold j).2
  obtain ⟨cm3, hc, hm⟩ := t2_check4_spec hG st st.C (vS G st I) (vSp G st I) (List.range st.n)
    (vCm2 G st I) (fun j hj => habs j (by rw [hn] at hj; exact List.mem_range.1 hj))
  have hW : verifyCompl G st I = sortUniq n cm3 := by
    unfold verifyCompl
    rw [hc, hn]
  have hcm2 : ∀ j, j ∈ vCm2 G st I ↔
      (j < n ∧ Flag j = true) ∨ (j < n ∧ j ≠ x ∧ (parseShare G.q (I.pq j)).2.2.2 = true) := by
    intro j
    unfold vCm2
    rw [hcompl, hn, hi]
    simp [List.mem_append, List.mem_filter, List.mem_range]
  have hmem : ∀ j, j ∈ verifyCompl G st I ↔ j < n ∧ (j ∈ vCm2 G st I ∨
      ¬ com G (getI (vS G st I) j) (getI (vSp G st I) j) = rowF G (getRow CH j) (x + 1)) := by
    intro j
    rw [hW, t2_mem_sortUniq, hm, hC, hi, hn, List.mem_range]
    constructor
    · rintro ⟨h1, h2 | h2⟩
      · exact ⟨h1, Or.inl h2⟩
      · exact ⟨h1, Or.inr h2.2⟩
    · rintro ⟨h1, h2 | h2⟩
      · exact ⟨h1, Or.inl h2⟩
      · exact ⟨h1, Or.inr ⟨h1, h2⟩⟩
  have hval : ∀ j, HonIdx ins n j → getI (vS G st I) j = shareOf G ins t j x ∧
      getI (vSp G st I) j = hshareOf G ins t j x ∧
      (j ≠ x → (parseShare G.q (I.pq j)).2.2.2 = false) := by
    intro j hj
    unfold vS vSp
    rw [hn, t2_getI_map_range _ _ _ hj.1, t2_getI_map_range _ _ _ hj.1, hi]
    by_cases hjx : j = x
    · subst hjx
      rw [if_pos rfl, if_pos rfl, hs, hsp, t2_getI_zeros_set, t2_getI_zeros_set,
        if_pos ⟨rfl, hj.1⟩, if_pos ⟨rfl, hj.1⟩]
      exact ⟨rfl, rfl, fun h => absurd rfl h⟩
    · rw [if_neg hjx, if_neg hjx, hpq j hj hjx,
        t2_parseShare_hon (shareOf G ins t j x) (hshareOf G ins t j x)
          (evalShare_range hG _ _).absLt (evalShare_range hG _ _).absLt]
      exact ⟨rfl, rfl, fun _ => rfl⟩
  refine ⟨⟨cm3, hc⟩, habs, ?_, ?_, ?_⟩
  · intro j hj
    rw [hmem] at hj
    refine ⟨hj.1, ?_⟩
    intro hjh
    obtain ⟨hrow, hlen, hflag, -⟩ := h.ch_hon j hjh
    obtain ⟨v1, v2, v3⟩ := hval j hjh
    rcases hj.2 with h2 | h2
    · rw [hcm2] at h2
      rcases h2 with h2 | h2
      · rw [hflag] at h2
        exact absurd h2.2 (by simp)
      · rw [v3 h2.2.1] at h2
        exact absurd h2.2.2 (by simp)
    · apply h2
      rw [v1, v2]
      have hcl : (cOf ins t j).length = t + 1 := by simp [cOf]
      have hhl : (hcOf ins t j).length = t + 1 := by simp [hcOf]
      rw [rowF_commit hG (cOf ins t j) (hcOf ins t j) (getRow CH j) (x + 1) hrow.1.symm
        (by rw [hhl, hlen]) (fun k hk => (hrow.2 k hk).2)]
      rfl
  · intro j hj hf
    rw [hmem, hcm2]
    exact ⟨hj, Or.inl (Or.inl ⟨hj, hf⟩)⟩
  · intro j hj hnW
    refine ⟨(habs j hj).1, (habs j hj).2, ?_⟩
    by_contra hne
    exact hnW ((hmem j).2 ⟨hj, Or.inr hne⟩)

/-- honest `x` after round 2 -/
theorem t2_party [Fact (Nat.Prime (grp G).p.natAbs)] (hS : Setup G ins n t)
    {Q : Nat → List (Tag × Int)} {CH : List (List Int)} {Flag : Nat → Bool} (h : Inv2 G ins n t Q CH Flag)
    (x : Nat) (hx : HonIdx ins n x) :
    ((wOf G ins n t x).Pairwise (· < ·) ∧ (∀ j ∈ wOf G ins n t x, j < n ∧ ¬ HonIdx ins n j) ∧
      (∀ j, j < n → Flag j = true → j ∈ wOf G ins n t x) ∧
      Q x ++ bOut G ins n t 2 x =
        tagged tagShare ((wOf G ins n t x).map (fun (j : Nat) => (j : Int))) ++ [(tagShare, (n : Int))]) ∧
    ∃ P, (cfg G ins n t 3)[x]? = some P ∧ Alive P ∧ Core ins n t x P.st ∧
      Held G ins n t CH x P.st ∧
      P.st.cnt = (List.range n).map (fun j => if (wOf G ins n t x).contains j then 1 else 0) ∧
      P.st.complainers = (List.range n).map (fun j => if (wOf G ins n t x).contains j then [x] else []) ∧
      P.st.compl = [] ∧
      (∀ j, j < n → j ∉ wOf G ins n t x →
        ValidShare G (getRow CH j) x (getI P.st.s j) (getI P.st.sp j)) ∧
      Boxes n x P.inbox (fun j => Q j ++ bOut G ins n t 2 j) := by
  have hlen2 : (cfg G ins n t 2).length = n := t2_cfg_length hS.hlen 2
  obtain ⟨P, hP, hal, hcore, hC, hcompl, hsrow, hhrow, hs, hsp, hcnt, ha, hha, hbox, hpq⟩ := h.party x hx
  have hW : wOf G ins n t x = verifyCompl G P.st P.inbox := by
    unfold wOf
    rw [hP]
  obtain ⟨⟨cm3, hc⟩, habs, hw1, hw2, hw3⟩ :=
    t2_verify hS h hx P.st P.inbox hcore hC hcompl hs hsp hpq
  have hstep := t2_jlVerify_ok P.st P.inbox cm3 hc
  have hxl : x < (cfg G ins n t 2).length := by rw [hlen2]; exact hx.1
  have hPx : (cfg G ins n t 2)[x] = P := by
    have := List.getElem?_eq_getElem hxl
    rw [hP] at this
    exact (Option.some.inj this).symm
  obtain ⟨fs', hsp', hfd⟩ := stepParty_honest (cfg G ins n t 2).length (flipStep G ins n t 2 x) P
    hal.dev (t2_live hal) _ _ _ _ hstep
  have hstepped : stepped (flipStep G ins n t 2) (cfg G ins n t 2) x hxl =
      (stepParty (cfg G ins n t 2).length (flipStep G ins n t 2 x) P).1 := by
    unfold stepped
    rw [hPx]
  rw [hsp'] at hstepped
  have hout : bOut G ins n t 2 x =
      (stepParty (cfg G ins n t 2).length (flipStep G ins n t 2 x) P).2.1 := by
    unfold bOut
    rw [dif_pos hxl]
    unfold outOf
    rw [hPx]
  rw [hsp'] at hout
  have hrr := runRound_get (flipStep G ins n t 2) (cfg G ins n t 2) x hxl
  rw [hstepped, ← cfg_succ] at hrr
  dsimp only at hrr hout
  obtain ⟨P', hP', d1, d2, d3, d4, d5, d6, d7, d8, -⟩ := hrr
  have hWp : (wOf G ins n t x).Pairwise (· < ·) := by
    rw [hW]
    unfold verifyCompl
    rw [hc]
    exact t2_sortUniq_pairwise _ _
  refine ⟨⟨hWp, ?_, ?_, ?_⟩, P', hP', ⟨d1.trans hal.dev, by rw [d2]; exact hfd, d4, d5.trans hal.noErr⟩, ?_, ?_, ?_, ?_,
    ?_, ?_, ?_⟩
  · rw [hW]; exact hw1
  · rw [hW]; exact hw2
  · rw [(h.ch_hon x hx).2.2.2, hout, hW, bsOf_append, t2_bsOf_map_bc tagShare (fun j => (j : Int)),
      hcore.n_eq]
    rfl
  · rw [d3]
    exact ⟨hcore.n_eq, hcore.t_eq, hcore.i_eq, hcore.sfb_eq, hcore.c_eq, hcore.hc_eq⟩
  · rw [d3]
    refine ⟨hC, hsrow, hhrow, ?_, ?_, habs, ha, hha⟩
    · show (vS G P.st P.inbox).length = n
      simp [vS, hcore.n_eq]
    · show (vSp G P.st P.inbox).length = n
      simp [vSp, hcore.n_eq]
  · rw [d3, hW]
    show (List.range P.st.n).map _ = _
    rw [hcore.n_eq]
  · rw [d3, hW]
    show (List.range P.st.n).map _ = _
    rw [hcore.n_eq, hcore.i_eq]
  · rw [d3]
  · rw [d3, hW]
    exact hw3
  · refine ⟨d6.trans hbox.blen, ?_, ?_⟩
    · rw [d7]
      simp [hcore.n_eq]
    · intro j hj hjx
      have hjl : j < (cfg G ins n t 2).length := by rw [hlen2]; exact hj
      have := d8 j (by rw [hbox.blen]; exact hj)
      rw [dif_pos ⟨hjx, hjl⟩] at this
      unfold Inbox.bq
      rw [this]
      have hq := hbox.bq_eq j hj hjx
      unfold Inbox.bq at hq
      rw [hq]
      unfold bOut
      rw [dif_pos hjl]

end T2

open T2 in
/-- after round 2 every honest party has checked its shares and broadcast its complaints -/
theorem inv3 [Fact (Nat.Prime (grp G).p.natAbs)] (hS : Setup G ins n t)
    {Q : Nat → List (Tag × Int)} {CH : List (List Int)} {Flag : Nat → Bool} (h : Inv2 G ins n t Q CH Flag) :
    ∃ Q' W, Inv3 G ins n t Q' CH Flag W := by
  refine ⟨fun j => Q j ++ bOut G ins n t 2 j, wOf G ins n t, ?_⟩
  refine ⟨h.ch_len, ?_, h.ch_ok, ?_, ?_⟩
  · intro j hj
    obtain ⟨h1, h2, h3, -⟩ := h.ch_hon j hj
    exact ⟨h1, h2, h3⟩
  · intro x hx
    exact (t2_party hS h x hx).1
  · intro x hx
    exact (t2_party hS h x hx).2

end Tmcg.JlProofs
