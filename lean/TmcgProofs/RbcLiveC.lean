import TmcgProofs.RbcLiveB
/-
  C14 liveness, part C: how the fields of a party change in one `DispL` step.
-/
namespace Tmcg.Rbc
variable {H : Int → Int} {T : Tag → Int}

/-- everything that deliver-or-buffer leaves alone -/
structure DobSame (p r : Party) : Prop where
  n : r.n = p.n
  t : r.t = p.t
  s : r.s = p.s
  mbar : r.mbar = p.mbar
  dbar : r.dbar = p.dbar
  eD : r.eD = p.eD
  rD : r.rD = p.rD
  awaited : r.awaited = p.awaited
  echo : r.echo = p.echo
  ready : r.ready = p.ready
  send : r.send = p.send
  request : r.request = p.request
  answer : r.answer = p.answer
  retrieve : r.retrieve = p.retrieve
  deliver : r.deliver = p.deliver

theorem dob_same (p : Party) (m : Msg) (s : Sent) : DobSame p (deliverOrBuffer p m s).party := by
  unfold deliverOrBuffer; simp only []; split_ifs
  · split <;> exact ⟨rfl, rfl, rfl, rfl, rfl, rfl, rfl, rfl, rfl, rfl, rfl, rfl, rfl, rfl, rfl⟩
  · exact ⟨rfl, rfl, rfl, rfl, rfl, rfl, rfl, rfl, rfl, rfl, rfl, rfl, rfl, rfl, rfl⟩

/-- `mbar` changes only at the tag of the consumed message, in three ways -/
theorem DispL.mbar_change {q : Party} {l : Nat} {msg : Msg} {q' : Party} {s : Sent} {o : Outcome}
    (h : DispL H T q l msg q' s o) :
    q'.mbar = q.mbar ∨
    (∃ x, q'.mbar = aSet q.mbar msg.tag x ∧
      ((msg.action = rSend ∧ msg.sender = (l : Int) ∧ x = msg.payload ∧ aGet q.mbar msg.tag = none) ∨
       (msg.action = rAnswer ∧ x = msg.payload ∧ aGet q.dbar msg.tag = some (H x)) ∨
       (msg.action = lDeliver ∧ ∃ i, q' = (deliverOrBuffer (ldelDec q l msg i) msg []).party ∧
          o = (deliverOrBuffer (ldelDec q l msg i) msg []).out ∧ (ldelDec q l msg i).mbar = aSet q.mbar msg.tag x))) := by
  cases h with
  | drop => exact Or.inl rfl
  | markSend => exact Or.inl rfl
  | echoNew wf hact hnew hl hm => exact Or.inr ⟨_, rfl, Or.inl ⟨hact, hl, rfl, hm⟩⟩
  | echoOld => exact Or.inl rfl
  | markEcho => exact Or.inl rfl
  | echoCount => exact Or.inl rfl
  | markReady => exact Or.inl rfl
  | readyCount => exact Or.inl rfl
  | readyReq wf hact hnew hlen hamp hr p3 hd hfoo =>
    rcases hd with ⟨_, rfl⟩ | ⟨_, rfl⟩ <;> exact Or.inl rfl
  | readyDeliver wf hact hnew hlen hamp hr p3 hd hfoo =>
    left; rw [(dob_same p3 msg []).mbar]
    rcases hd with ⟨_, rfl⟩ | ⟨_, rfl⟩ <;> rfl
  | reqAnswer => exact Or.inl rfl
  | markReq => exact Or.inl rfl
  | markAns => exact Or.inl rfl
  | answerDeliver wf hact hnew db hd haw hh =>
    right; rw [(dob_same _ msg []).mbar]
    exact ⟨_, rfl, Or.inr (Or.inl ⟨hact, rfl, by rw [hh]; exact hd⟩)⟩
  | retrieve => exact Or.inl rfl
  | ldelMark => exact Or.inl rfl
  | ldelDeliver wf hact hnew hretr i hi =>
    right; rw [(dob_same _ msg []).mbar]
    exact ⟨_, rfl, Or.inr (Or.inr ⟨hact, i, rfl, rfl, rfl⟩)⟩

/-- `dbar` changes only by fixing the digest of the consumed r-ready -/
theorem DispL.dbar_change {q : Party} {l : Nat} {msg : Msg} {q' : Party} {s : Sent} {o : Outcome}
    (h : DispL H T q l msg q' s o) :
    q'.dbar = q.dbar ∨
    (q'.dbar = aSet q.dbar msg.tag msg.payload ∧ aGet q.dbar msg.tag = none ∧
      msg.action = rReady ∧ LenOk T msg.tag msg.payload ∧
      cnt q.rD (msg.tag, msg.payload) + 1 = 2 * q.t + 1) := by
  cases h with
  | readyReq wf hact hnew hlen hamp hr p3 hd hfoo =>
    rcases hd with ⟨hn, rfl⟩ | ⟨_, rfl⟩
    · exact Or.inr ⟨rfl, hn, hact, hlen, hr⟩
    · exact Or.inl rfl
  | readyDeliver wf hact hnew hlen hamp hr p3 hd hfoo =>
    rw [(dob_same p3 msg []).dbar]
    rcases hd with ⟨hn, rfl⟩ | ⟨_, rfl⟩
    · exact Or.inr ⟨rfl, hn, hact, hlen, hr⟩
    · exact Or.inl rfl
  | answerDeliver => left; rw [(dob_same _ msg []).dbar]; rfl
  | ldelDeliver => left; rw [(dob_same _ msg []).dbar]; rfl
  | _ => exact Or.inl rfl

macro "actdec" : tactic => `(tactic| (simp only [mkMsg]; decide))

theorem mem_sendAll_iff {n : Nat} {m : Msg} {x : Nat × Msg} :
    x ∈ sendAll n m ↔ x.1 < n ∧ x.2 = m := by
  unfold sendAll
  simp only [List.mem_map, List.mem_range]
  constructor
  · rintro ⟨i, hi, rfl⟩; exact ⟨hi, rfl⟩
  · rintro ⟨h1, h2⟩; exact ⟨x.1, h1, by rw [← h2]⟩

/-- echo / ready messages are always sent to everybody; no r-send is sent by `dispatch` -/
theorem DispL.sent_all {q : Party} {l : Nat} {msg : Msg} {q' : Party} {s : Sent} {o : Outcome}
    (h : DispL H T q l msg q' s o) :
    ∀ x ∈ s, x.2.action ≠ rSend ∧
      ((x.2.action = rEcho ∨ x.2.action = rReady) → ∀ d < q.n, (d, x.2) ∈ s) := by
  have hall : ∀ (m : Msg), m.action ≠ rSend → ∀ x ∈ sendAll q.n m, x.2.action ≠ rSend ∧
      ((x.2.action = rEcho ∨ x.2.action = rReady) → ∀ d < q.n, (d, x.2) ∈ sendAll q.n m) := by
    intro m hm x hx
    obtain ⟨_, h2⟩ := mem_sendAll_iff.1 hx
    rw [h2]
    exact ⟨hm, fun _ d hd => mem_sendAll_iff.2 ⟨hd, rfl⟩⟩
  have hnil : ∀ x ∈ ([] : Sent), x.2.action ≠ rSend ∧
      ((x.2.action = rEcho ∨ x.2.action = rReady) → ∀ d < q.n, (d, x.2) ∈ ([] : Sent)) := by
    intro x hx; cases hx
  cases h with
  | drop => exact hnil
  | markSend => exact hnil
  | echoNew => exact hall _ (by actdec)
  | echoOld => exact hall _ (by actdec)
  | markEcho => exact hnil
  | echoCount =>
    split_ifs
    · exact hall _ (by actdec)
    · exact hnil
  | markReady => exact hnil
  | readyCount =>
    split_ifs
    · exact hall _ (by actdec)
    · exact hnil
  | readyReq =>
    intro x hx
    unfold reqList at hx
    obtain ⟨i, _, rfl⟩ := List.mem_map.1 hx
    refine ⟨by actdec, ?_⟩
    rintro (h | h) <;> exact absurd h (by actdec)
  | readyDeliver => rw [dob_sent_nil]; exact hnil
  | reqAnswer =>
    intro x hx
    rw [List.mem_singleton] at hx; subst hx
    refine ⟨by actdec, ?_⟩
    rintro (h | h) <;> exact absurd h (by actdec)
  | markReq => exact hnil
  | markAns => exact hnil
  | answerDeliver => rw [dob_sent_nil]; exact hnil
  | retrieve wf hact x hx =>
    intro y hy
    rw [List.mem_singleton] at hy; subst hy
    rcases hx with hx | ⟨mb, rfl, _⟩
    · refine ⟨by rw [hx]; decide, ?_⟩
      rintro (h | h) <;> (rw [hx] at h; exact absurd h (by decide))
    · refine ⟨by actdec, ?_⟩
      rintro (h | h) <;> exact absurd h (by actdec)
  | ldelMark => exact hnil
  | ldelDeliver => rw [dob_sent_nil]; exact hnil

/-- the own sequence counter is not touched by `dispatch` -/
theorem DispL.s_eq {q : Party} {l : Nat} {msg : Msg} {q' : Party} {s : Sent} {o : Outcome}
    (h : DispL H T q l msg q' s o) : q'.s = q.s := by
  cases h with
  | readyReq wf hact hnew hlen hamp hr p3 hd hfoo => rcases hd with ⟨_, rfl⟩ | ⟨_, rfl⟩ <;> rfl
  | readyDeliver wf hact hnew hlen hamp hr p3 hd hfoo =>
    rw [(dob_same p3 msg []).s]
    rcases hd with ⟨_, rfl⟩ | ⟨_, rfl⟩ <;> rfl
  | answerDeliver => rw [(dob_same _ msg []).s]; rfl
  | ldelDeliver => rw [(dob_same _ msg []).s]; rfl
  | _ => rfl

/-- the `send` filter and the echoes: an r-echo is sent exactly when a new r-send of the sender's
    own link is accepted and its payload is (now) the stored one -/
theorem DispL.send_change {q : Party} {l : Nat} {msg : Msg} {q' : Party} {s : Sent} {o : Outcome}
    (h : DispL H T q l msg q' s o) :
    (q'.send = q.send ∧ ∀ x ∈ s, x.2.action ≠ rEcho) ∨
    (q'.send = fIns q.send l msg.tag ∧ msg.action = rSend ∧ WF q msg ∧
      fHas q.send l msg.tag = false ∧
      ((s = [] ∧ (msg.sender ≠ (l : Int) ∨ ∃ mb, aGet q.mbar msg.tag = some mb ∧ mb ≠ msg.payload)) ∨
       (s = sendAll q.n (mkMsg msg rEcho (H msg.payload)) ∧ msg.sender = (l : Int) ∧
        aGet q'.mbar msg.tag = some msg.payload))) := by
  have hnil : ∀ x ∈ ([] : Sent), x.2.action ≠ rEcho := by intro x hx; cases hx
  have hall : ∀ (m : Msg), m.action ≠ rEcho → ∀ x ∈ sendAll q.n m, x.2.action ≠ rEcho := by
    intro m hm x hx; rw [(mem_sendAll_iff.1 hx).2]; exact hm
  cases h with
  | drop => exact Or.inl ⟨rfl, hnil⟩
  | markSend wf hact hnew hbad => exact Or.inr ⟨rfl, hact, wf, hnew, Or.inl ⟨rfl, hbad⟩⟩
  | echoNew wf hact hnew hl hm =>
    exact Or.inr ⟨rfl, hact, wf, hnew, Or.inr ⟨rfl, hl, aGet_aSet_self _ _ _⟩⟩
  | echoOld wf hact hnew hl hm => exact Or.inr ⟨rfl, hact, wf, hnew, Or.inr ⟨rfl, hl, hm⟩⟩
  | markEcho => exact Or.inl ⟨rfl, hnil⟩
  | echoCount =>
    refine Or.inl ⟨rfl, ?_⟩
    split_ifs
    · exact hall _ (by actdec)
    · exact hnil
  | markReady => exact Or.inl ⟨rfl, hnil⟩
  | readyCount =>
    refine Or.inl ⟨rfl, ?_⟩
    split_ifs
    · exact hall _ (by actdec)
    · exact hnil
  | readyReq wf hact hnew hlen hamp hr p3 hd hfoo =>
    refine Or.inl ⟨by rcases hd with ⟨_, rfl⟩ | ⟨_, rfl⟩ <;> rfl, ?_⟩
    intro x hx
    unfold reqList at hx
    obtain ⟨i, _, rfl⟩ := List.mem_map.1 hx
    actdec
  | readyDeliver wf hact hnew hlen hamp hr p3 hd hfoo =>
    refine Or.inl ⟨?_, by rw [dob_sent_nil]; exact hnil⟩
    rw [(dob_same p3 msg []).send]
    rcases hd with ⟨_, rfl⟩ | ⟨_, rfl⟩ <;> rfl
  | reqAnswer =>
    refine Or.inl ⟨rfl, ?_⟩
    intro x hx
    rw [List.mem_singleton] at hx; subst hx
    actdec
  | markReq => exact Or.inl ⟨rfl, hnil⟩
  | markAns => exact Or.inl ⟨rfl, hnil⟩
  | answerDeliver =>
    refine Or.inl ⟨?_, by rw [dob_sent_nil]; exact hnil⟩
    rw [(dob_same _ msg []).send]; rfl
  | retrieve wf hact x hx =>
    refine Or.inl ⟨rfl, ?_⟩
    intro y hy
    rw [List.mem_singleton] at hy; subst hy
    rcases hx with hx | ⟨mb, rfl, _⟩
    · show x.action ≠ rEcho
      rw [hx]; decide
    · actdec
  | ldelMark => exact Or.inl ⟨rfl, hnil⟩
  | ldelDeliver =>
    refine Or.inl ⟨?_, by rw [dob_sent_nil]; exact hnil⟩
    rw [(dob_same _ msg []).send]; rfl

/-- the `echo` filter and the echo counters -/
theorem DispL.echo_change {q : Party} {l : Nat} {msg : Msg} {q' : Party} {s : Sent} {o : Outcome}
    (h : DispL H T q l msg q' s o) :
    (q'.echo = q.echo ∧ ∀ k, cnt q'.eD k = cnt q.eD k) ∨
    (msg.action = rEcho ∧ q'.echo = fIns q.echo l msg.tag ∧
      ((¬ LenOk T msg.tag msg.payload ∧ q'.eD = q.eD) ∨
       (LenOk T msg.tag msg.payload ∧ q'.eD = (cntInc q.eD (msg.tag, msg.payload)).1))) := by
  cases h with
  | markEcho wf hact hnew hlen => exact Or.inr ⟨hact, rfl, Or.inl ⟨hlen, rfl⟩⟩
  | echoCount wf hact hnew hlen => exact Or.inr ⟨hact, rfl, Or.inr ⟨hlen, rfl⟩⟩
  | readyCount => exact Or.inl ⟨rfl, fun k => cnt_cntTouch _ _ _⟩
  | readyReq wf hact hnew hlen hamp hr p3 hd hfoo =>
    rcases hd with ⟨_, rfl⟩ | ⟨_, rfl⟩ <;> exact Or.inl ⟨rfl, fun k => cnt_cntTouch _ _ _⟩
  | readyDeliver wf hact hnew hlen hamp hr p3 hd hfoo =>
    rw [(dob_same p3 msg []).echo, (dob_same p3 msg []).eD]
    rcases hd with ⟨_, rfl⟩ | ⟨_, rfl⟩ <;> exact Or.inl ⟨rfl, fun k => cnt_cntTouch _ _ _⟩
  | answerDeliver =>
    rw [(dob_same _ msg []).echo, (dob_same _ msg []).eD]; exact Or.inl ⟨rfl, fun _ => rfl⟩
  | ldelDeliver =>
    rw [(dob_same _ msg []).echo, (dob_same _ msg []).eD]; exact Or.inl ⟨rfl, fun _ => rfl⟩
  | _ => exact Or.inl ⟨rfl, fun _ => rfl⟩

/-- the `ready` filter and the ready counters -/
theorem DispL.ready_change {q : Party} {l : Nat} {msg : Msg} {q' : Party} {s : Sent} {o : Outcome}
    (h : DispL H T q l msg q' s o) :
    (q'.ready = q.ready ∧ ∀ k, cnt q'.rD k = cnt q.rD k) ∨
    (msg.action = rReady ∧ q'.ready = fIns q.ready l msg.tag ∧
      ((¬ LenOk T msg.tag msg.payload ∧ q'.rD = q.rD) ∨
       (LenOk T msg.tag msg.payload ∧ q'.rD = (cntInc q.rD (msg.tag, msg.payload)).1))) := by
  cases h with
  | markReady wf hact hnew hlen => exact Or.inr ⟨hact, rfl, Or.inl ⟨hlen, rfl⟩⟩
  | readyCount wf hact hnew hlen => exact Or.inr ⟨hact, rfl, Or.inr ⟨hlen, rfl⟩⟩
  | echoCount => exact Or.inl ⟨rfl, fun k => cnt_cntTouch _ _ _⟩
  | readyReq wf hact hnew hlen hamp hr p3 hd hfoo =>
    rcases hd with ⟨_, rfl⟩ | ⟨_, rfl⟩ <;> exact Or.inr ⟨hact, rfl, Or.inr ⟨hlen, rfl⟩⟩
  | readyDeliver wf hact hnew hlen hamp hr p3 hd hfoo =>
    rw [(dob_same p3 msg []).ready, (dob_same p3 msg []).rD]
    rcases hd with ⟨_, rfl⟩ | ⟨_, rfl⟩ <;> exact Or.inr ⟨hact, rfl, Or.inr ⟨hlen, rfl⟩⟩
  | answerDeliver =>
    rw [(dob_same _ msg []).ready, (dob_same _ msg []).rD]; exact Or.inl ⟨rfl, fun _ => rfl⟩
  | ldelDeliver =>
    rw [(dob_same _ msg []).ready, (dob_same _ msg []).rD]; exact Or.inl ⟨rfl, fun _ => rfl⟩
  | _ => exact Or.inl ⟨rfl, fun _ => rfl⟩

theorem DispL.request_change {q : Party} {l : Nat} {msg : Msg} {q' : Party} {s : Sent} {o : Outcome}
    (h : DispL H T q l msg q' s o) :
    q'.request = q.request ∨ (q'.request = fIns q.request l msg.tag ∧ msg.action = rRequest ∧
      fHas q.request l msg.tag = false) := by
  cases h with
  | reqAnswer wf hact hnew => exact Or.inr ⟨rfl, hact, hnew⟩
  | markReq wf hact hnew => exact Or.inr ⟨rfl, hact, hnew⟩
  | readyReq wf hact hnew hlen hamp hr p3 hd hfoo => rcases hd with ⟨_, rfl⟩ | ⟨_, rfl⟩ <;> exact Or.inl rfl
  | readyDeliver wf hact hnew hlen hamp hr p3 hd hfoo =>
    rw [(dob_same p3 msg []).request]
    rcases hd with ⟨_, rfl⟩ | ⟨_, rfl⟩ <;> exact Or.inl rfl
  | answerDeliver => rw [(dob_same _ msg []).request]; exact Or.inl rfl
  | ldelDeliver => rw [(dob_same _ msg []).request]; exact Or.inl rfl
  | _ => exact Or.inl rfl

theorem DispL.answer_change {q : Party} {l : Nat} {msg : Msg} {q' : Party} {s : Sent} {o : Outcome}
    (h : DispL H T q l msg q' s o) :
    q'.answer = q.answer ∨ (q'.answer = fIns q.answer l msg.tag ∧ msg.action = rAnswer ∧
      fHas q.answer l msg.tag = false) := by
  cases h with
  | markAns wf hact hnew => exact Or.inr ⟨rfl, hact, hnew⟩
  | answerDeliver wf hact hnew => rw [(dob_same _ msg []).answer]; exact Or.inr ⟨rfl, hact, hnew⟩
  | readyReq wf hact hnew hlen hamp hr p3 hd hfoo => rcases hd with ⟨_, rfl⟩ | ⟨_, rfl⟩ <;> exact Or.inl rfl
  | readyDeliver wf hact hnew hlen hamp hr p3 hd hfoo =>
    rw [(dob_same p3 msg []).answer]
    rcases hd with ⟨_, rfl⟩ | ⟨_, rfl⟩ <;> exact Or.inl rfl
  | ldelDeliver => rw [(dob_same _ msg []).answer]; exact Or.inl rfl
  | _ => exact Or.inl rfl

/-- counters and the r-ready messages they trigger -/
theorem DispL.quorum_change {q : Party} {l : Nat} {msg : Msg} {q' : Party} {s : Sent} {o : Outcome}
    (h : DispL H T q l msg q' s o) :
    ((∀ k, cnt q'.eD k = cnt q.eD k) ∧ (∀ k, cnt q'.rD k = cnt q.rD k)) ∨
    (q'.eD = (cntInc q.eD (msg.tag, msg.payload)).1 ∧ (∀ k, cnt q'.rD k = cnt q.rD k) ∧
      (EchoQ q msg → s = sendAll q.n (mkMsg msg rReady msg.payload))) ∨
    (q'.rD = (cntInc q.rD (msg.tag, msg.payload)).1 ∧ (∀ k, cnt q'.eD k = cnt q.eD k) ∧
      (Amp q msg → s = sendAll q.n (mkMsg msg rReady msg.payload)) ∧
      (cnt q.rD (msg.tag, msg.payload) + 1 = 2 * q.t + 1 →
        aGet q'.dbar msg.tag = some msg.payload ∨
        ∃ db, aGet q.dbar msg.tag = some db ∧ db ≠ msg.payload)) := by
  have same : ((∀ k, cnt q.eD k = cnt q.eD k) ∧ (∀ k, cnt q.rD k = cnt q.rD k)) :=
    ⟨fun _ => rfl, fun _ => rfl⟩
  cases h with
  | echoCount wf hact hnew hlen =>
    refine Or.inr (Or.inl ⟨rfl, fun k => cnt_cntTouch _ _ _, fun hq => ?_⟩)
    rw [if_pos hq]
  | readyCount wf hact hnew hlen hno =>
    refine Or.inr (Or.inr ⟨rfl, fun k => cnt_cntTouch _ _ _, fun hq => by rw [if_pos hq], fun hr => ?_⟩)
    rcases hno with ha | hne | hdb
    · exfalso; unfold Amp at ha; omega
    · exact absurd hr hne
    · exact Or.inr hdb
  | readyReq wf hact hnew hlen hamp hr p3 hd hfoo =>
    rcases hd with ⟨hn, rfl⟩ | ⟨hs, rfl⟩
    · exact Or.inr (Or.inr ⟨rfl, fun k => cnt_cntTouch _ _ _, fun hq => absurd hq hamp,
        fun _ => Or.inl (aGet_aSet_self _ _ _)⟩)
    · exact Or.inr (Or.inr ⟨rfl, fun k => cnt_cntTouch _ _ _, fun hq => absurd hq hamp,
        fun _ => Or.inl hs⟩)
  | readyDeliver wf hact hnew hlen hamp hr p3 hd hfoo =>
    rw [(dob_same p3 msg []).rD, (dob_same p3 msg []).eD, (dob_same p3 msg []).dbar]
    rcases hd with ⟨hn, rfl⟩ | ⟨hs, rfl⟩
    · exact Or.inr (Or.inr ⟨rfl, fun k => cnt_cntTouch _ _ _, fun hq => absurd hq hamp,
        fun _ => Or.inl (aGet_aSet_self _ _ _)⟩)
    · exact Or.inr (Or.inr ⟨rfl, fun k => cnt_cntTouch _ _ _, fun hq => absurd hq hamp,
        fun _ => Or.inl hs⟩)
  | answerDeliver =>
    rw [(dob_same _ msg []).rD, (dob_same _ msg []).eD]; exact Or.inl same
  | ldelDeliver =>
    rw [(dob_same _ msg []).rD, (dob_same _ msg []).eD]; exact Or.inl same
  | _ => exact Or.inl same

theorem dob_buf_mono (p : Party) (m : Msg) : ∀ e ∈ p.deliverBuf, e ∈ (deliverOrBuffer p m []).party.deliverBuf := by
  intro e he
  rcases dob_cases p m with ⟨_, _, _, heq⟩ | ⟨_, _, _, _, heq⟩ | ⟨_, heq⟩ <;> rw [heq]
  · exact he
  · exact he
  · exact List.mem_append_left _ he

/-- what deliver-or-buffer achieves for the tag of its message -/
theorem dob_prog (p : Party) (msg : Msg) :
    (aGet p.mbar msg.tag = none ∧ (deliverOrBuffer p msg []).out = .threw) ∨
    (∃ who m, (deliverOrBuffer p msg []).out = .delivered who m) ∨
    msg ∈ (deliverOrBuffer p msg []).party.deliverBuf := by
  rcases dob_cases p msg with ⟨_, _, hm, heq⟩ | ⟨m, _, _, hm, heq⟩ | ⟨_, heq⟩
  · exact Or.inl ⟨hm, by rw [heq]⟩
  · exact Or.inr (Or.inl ⟨_, m, by rw [heq]⟩)
  · refine Or.inr (Or.inr ?_)
    rw [heq]; exact List.mem_append_right _ (List.mem_singleton.2 rfl)

/-- awaited tags and buffered messages: what one `dispatch` does to them -/
theorem DispL.prog {q : Party} {l : Nat} {msg : Msg} {q' : Party} {s : Sent} {o : Outcome}
    (h : DispL H T q l msg q' s o) :
    (∀ τ, τ ∈ q.awaited → τ ≠ msg.tag → τ ∈ q'.awaited) ∧
    (∀ e ∈ q.deliverBuf, e ∈ q'.deliverBuf) ∧
    ((msg.tag ∈ q.awaited ∨ (aGet q.dbar msg.tag = none ∧ aGet q'.dbar msg.tag ≠ none)) →
      msg.tag ∈ q'.awaited ∨ (∃ who m, o = .delivered who m) ∨ msg ∈ q'.deliverBuf ∨
      aGet q'.dbar msg.tag = some 0) := by
  have triv : q'.awaited = q.awaited → q'.deliverBuf = q.deliverBuf → q'.dbar = q.dbar →
      (∀ τ, τ ∈ q.awaited → τ ≠ msg.tag → τ ∈ q'.awaited) ∧
      (∀ e ∈ q.deliverBuf, e ∈ q'.deliverBuf) ∧
      ((msg.tag ∈ q.awaited ∨ (aGet q.dbar msg.tag = none ∧ aGet q'.dbar msg.tag ≠ none)) →
        msg.tag ∈ q'.awaited ∨ (∃ who m, o = .delivered who m) ∨ msg ∈ q'.deliverBuf ∨
        aGet q'.dbar msg.tag = some 0) := by
    intro h1 h2 h3
    rw [h1, h2, h3]
    refine ⟨fun τ h _ => h, fun e h => h, ?_⟩
    rintro (h | ⟨h, h'⟩)
    · exact Or.inl h
    · exact absurd h h'
  cases h with
  | readyReq wf hact hnew hlen hamp hr p3 hd hfoo =>
    have haw : ∀ τ, τ ∈ q.awaited → τ ∈ (if q.awaited.contains msg.tag then q.awaited
        else msg.tag :: q.awaited) := by
      intro τ h; split_ifs
      · exact h
      · exact List.mem_cons_of_mem _ h
    have hin : msg.tag ∈ (if q.awaited.contains msg.tag then q.awaited
        else msg.tag :: q.awaited) := by
      split_ifs with hc
      · simpa using hc
      · exact List.mem_cons_self
    refine ⟨fun τ h _ => haw τ h, ?_, fun _ => Or.inl hin⟩
    rcases hd with ⟨_, rfl⟩ | ⟨_, rfl⟩ <;> exact fun e h => h
  | readyDeliver wf hact hnew hlen hamp hr p3 hd hfoo =>
    have h3a : p3.awaited = q.awaited := by rcases hd with ⟨_, rfl⟩ | ⟨_, rfl⟩ <;> rfl
    have h3b : p3.deliverBuf = q.deliverBuf := by rcases hd with ⟨_, rfl⟩ | ⟨_, rfl⟩ <;> rfl
    have h3m : p3.mbar = q.mbar := by rcases hd with ⟨_, rfl⟩ | ⟨_, rfl⟩ <;> rfl
    have h3d : aGet p3.dbar msg.tag = some msg.payload := by
      rcases hd with ⟨_, rfl⟩ | ⟨h, rfl⟩
      · exact aGet_aSet_self _ _ _
      · exact h
    refine ⟨fun τ h _ => by rw [(dob_same p3 msg []).awaited, h3a]; exact h,
      fun e h => dob_buf_mono p3 msg e (by rw [h3b]; exact h), fun _ => ?_⟩
    rcases dob_prog p3 msg with ⟨hn, _⟩ | h | h
    · right; right; right
      rw [(dob_same p3 msg []).dbar, h3d]
      rw [h3m] at hn
      rcases hfoo with ⟨_, h0⟩ | ⟨mb, hmb, _⟩
      · rw [h0]
      · rw [hmb] at hn; cases hn
    · exact Or.inr (Or.inl h)
    · exact Or.inr (Or.inr (Or.inl h))
  | answerDeliver wf hact hnew db hd haw hh =>
    refine ⟨fun τ h hne => ?_, fun e h => dob_buf_mono _ msg e h, fun _ => ?_⟩
    · rw [(dob_same _ msg []).awaited]
      exact (List.mem_erase_of_ne hne).2 h
    · rcases dob_prog (answerPost q l msg) msg with ⟨hn, _⟩ | h | h
      · have : aGet (answerPost q l msg).mbar msg.tag = some msg.payload := aGet_aSet_self _ _ _
        rw [this] at hn; cases hn
      · exact Or.inr (Or.inl h)
      · exact Or.inr (Or.inr (Or.inl h))
  | ldelDeliver wf hact hnew hretr i hi =>
    refine ⟨fun τ h _ => by rw [(dob_same _ msg []).awaited]; exact h,
      fun e h => dob_buf_mono _ msg e h, ?_⟩
    rintro (h | ⟨h, h'⟩)
    · left; rw [(dob_same _ msg []).awaited]; exact h
    · rw [(dob_same _ msg []).dbar] at h'; exact absurd h h'
  | _ => exact triv rfl rfl rfl

end Tmcg.Rbc
