import Tmcg.Model.GroupCheck
import TmcgProofs.Group
import TmcgProofs.PowmEq
/-
  C06: every CheckGroup copy accepts exactly the parameter sets of its specification.
-/
namespace Tmcg.GroupCheck
open Tmcg

/-- a generator in the strict range with `x^q ≡ 1` -/
def GenOk (x p q : Int) : Prop := 1 < x ∧ x < p - 1 ∧ x ^ q.natAbs % p = 1

/-- sizes, positive `q`, `p = qk + 1`, both (probable) primes, `gcd(q, k) = 1` -/
def PrefixOk (fsize gsize : Nat) (prime : Int → Bool) (p q k : Int) : Prop :=
  fsize ≤ bitlen p ∧ gsize ≤ bitlen q ∧ 0 < q ∧ p = q * k + 1 ∧ prime p = true ∧ prime q = true ∧
  Int.gcd q k = 1

/-- the probable-prime oracle never calls a number `≤ 1` prime -/
def PrimeOracleOk (prime : Int → Bool) : Prop := ∀ x, prime x = true → 1 < x

set_option linter.unusedSimpArgs false

/-! ### helpers -/

theorem orderOk_eq (x q p : Int) (hp : 0 < p) (hq : 0 < q) :
    orderOk x q p = .ok (decide (x ^ q.natAbs % p = 1)) := by
  unfold orderOk
  rw [Powm.mpzPowm_nonneg_eq x q p hp hq.le]
  have : q.toNat = q.natAbs := by omega
  simp only [bind, Except.bind, pure, Except.pure, this]
  rfl

theorem inRange_iff (x p : Int) : inRange x p = true ↔ 1 < x ∧ x < p - 1 := by
  unfold inRange; simp

theorem commonPrefix_iff (fsize gsize : Nat) (prime : Int → Bool) (p q k : Int) :
    commonPrefix fsize gsize prime p q k = true ↔
      (fsize ≤ bitlen p ∧ gsize ≤ bitlen q ∧ p = q * k + 1 ∧ prime p = true ∧ prime q = true ∧
        Int.gcd q k = 1) := by
  unfold commonPrefix
  simp only [Bool.and_eq_true, Bool.not_eq_true', Bool.or_eq_false_iff, decide_eq_false_iff_not,
    Nat.not_lt, beq_iff_eq, and_assoc]
  constructor
  · rintro ⟨h1, h2, h3, h4, h5, h6⟩; exact ⟨h1, h2, h3.symm, h4, h5, h6⟩
  · rintro ⟨h1, h2, h3, h4, h5, h6⟩; exact ⟨h1, h2, h3.symm, h4, h5, h6⟩

theorem gate_iff (b : Bool) (rest : Except Err Bool) :
    ((if (!b) = true then pure false else rest) = Except.ok true) ↔ b = true ∧ rest = .ok true := by
  cases b <;> simp [pure, Except.pure]

theorem gateP (c : Prop) [Decidable c] (rest : Except Err Bool) :
    ((if c then pure false else rest) = Except.ok true) ↔ ¬ c ∧ rest = .ok true := by
  by_cases h : c <;> simp [h, pure, Except.pure]

theorem pure_iff (b : Bool) : ((pure b : Except Err Bool) = .ok true) ↔ b = true := by
  simp [pure, Except.pure]

theorem ok_bind {α β : Type} (a : α) (f : α → Except Err β) : (Except.ok a >>= f) = f a := rfl

theorem bind_beq (x : Except Err Int) (a : Int) :
    (x >>= fun g2 => pure (g2 == a)) = Except.ok true ↔ x = .ok a := by
  cases x <;> simp [bind, Except.bind, pure, Except.pure]

theorem prefix_gate (fsize gsize : Nat) (prime : Int → Bool) (hpr : PrimeOracleOk prime)
    (p q k : Int) (rest : Except Err Bool) (R : Prop)
    (h : 0 < p → 0 < q → (rest = .ok true ↔ R)) :
    ((if q ≤ 0 then pure false
      else if (!commonPrefix fsize gsize prime p q k) = true then pure false else rest)
        = Except.ok true) ↔ PrefixOk fsize gsize prime p q k ∧ R := by
  unfold PrefixOk
  by_cases hq : q ≤ 0
  · simp only [hq, if_true, pure_iff]
    constructor
    · intro h; cases h
    · rintro ⟨⟨-, -, h, -⟩, -⟩; omega
  · simp only [hq, if_false, gate_iff, commonPrefix_iff]
    have hq' : 0 < q := by omega
    constructor
    · rintro ⟨⟨h1, h2, h3, h4, h5, h6⟩, hr⟩
      have hp : 0 < p := by have := hpr _ h4; omega
      exact ⟨⟨h1, h2, hq', h3, h4, h5, h6⟩, (h hp hq').mp hr⟩
    · rintro ⟨⟨h1, h2, -, h3, h4, h5, h6⟩, hr⟩
      have hp : 0 < p := by have := hpr _ h4; omega
      exact ⟨⟨h1, h2, h3, h4, h5, h6⟩, (h hp hq').mpr hr⟩

/-- the order-check loop of class P: continues iff every `g_i` passes -/
theorem orderLoop_eq (q p : Int) (gs : List Int) :
    forIn (m := Except Err) gs ((none : Option Bool), ()) (fun gi (_ : Option Bool × Unit) =>
        if (!decide (gi ^ q.natAbs % p = 1)) = true then pure (ForInStep.done (some false, ()))
        else pure (ForInStep.yield (none, ())))
      = .ok (if ∀ x ∈ gs, x ^ q.natAbs % p = 1 then (none, ()) else (some false, ())) := by
  induction gs with
  | nil => simp [pure, Except.pure]
  | cons a l ih =>
    rw [List.forIn_cons]
    by_cases ha : a ^ q.natAbs % p = 1
    · simp only [ha, decide_true, Bool.not_true, Bool.false_eq_true, if_false, pure_bind, ih]
      simp [ha]
    · simp only [ha, decide_false, Bool.not_false, if_true, pure_bind]
      simp [ha, pure, Except.pure]

theorem go_iff (P : Params) (p : Int) (gs : List Int) :
    checkGroup.go P p gs = true ↔ (∀ x ∈ gs, (1 < x ∧ x < p - 1) ∧ x ≠ P.h) ∧ gs.Nodup := by
  induction gs with
  | nil => simp [checkGroup.go]
  | cons a l ih =>
    simp only [checkGroup.go, Bool.and_eq_true, inRange_iff, bne_iff_ne, Bool.not_eq_true',
      List.contains_eq_mem, decide_eq_false_iff_not, ih, List.mem_cons, forall_eq_or_imp,
      List.nodup_cons]
    tauto

variable (fsize gsize : Nat) (prime : Int → Bool) (hpr : PrimeOracleOk prime) (H : Hash) (fuel : Nat)

/-- class D (BarnettSmartVTMF_dlog) without the canonical-generator requirement -/
theorem checkGroup_D_iff (hpr : PrimeOracleOk prime) (P : Params) :
    checkGroup (.D false) fsize gsize prime H fuel P = .ok true ↔
      PrefixOk fsize gsize prime P.p P.q P.k ∧ GenOk P.g P.p P.q := by
  simp only [checkGroup]
  apply prefix_gate _ _ _ hpr
  intro hp hq
  simp only [orderOk_eq _ _ _ hp hq, ok_bind, gate_iff, pure_iff, bind_beq, inRange_iff, GenOk,
    decide_eq_true_iff, Bool.false_eq_true, if_false, if_true, and_true, and_assoc]

/-- class D with canonical generator: additionally `g` must be the first candidate the
    verifiable derivation accepts -/
theorem checkGroup_D_canonical_iff (hpr : PrimeOracleOk prime) (P : Params) :
    checkGroup (.D true) fsize gsize prime H fuel P = .ok true ↔
      PrefixOk fsize gsize prime P.p P.q P.k ∧ GenOk P.g P.p P.q ∧
      ggen H P.p P.q P.k fuel (ggenStart P.p P.q) = .ok P.g := by
  simp only [checkGroup]
  apply prefix_gate _ _ _ hpr
  intro hp hq
  simp only [orderOk_eq _ _ _ hp hq, ok_bind, gate_iff, pure_iff, bind_beq, inRange_iff, GenOk,
    decide_eq_true_iff, Bool.false_eq_true, if_false, if_true, and_true, and_assoc]

/-- classes G (HSSV-VRHE, JL-RVSS, JL-EDCF) and R without canonical flag (GJKR-DKG, CGJKR-*):
    cofactor recomputed as `⌊(p-1)/q⌋`, two generators that must differ -/
theorem checkGroup_G_iff (hpr : PrimeOracleOk prime) (P : Params) (cls : Cls) (hc : cls = .G ∨ cls = .R false) :
    checkGroup cls fsize gsize prime H fuel P = .ok true ↔
      PrefixOk fsize gsize prime P.p P.q (Int.fdiv (P.p - 1) P.q) ∧
      GenOk P.h P.p P.q ∧ GenOk P.g P.p P.q ∧ P.g ≠ P.h := by
  rcases hc with rfl | rfl
  all_goals
    simp only [checkGroup]
    apply prefix_gate _ _ _ hpr
    intro hp hq
    simp only [orderOk_eq _ _ _ hp hq, ok_bind, gate_iff, pure_iff, bind_beq, inRange_iff, GenOk,
      decide_eq_true_iff, Bool.false_eq_true, if_false, if_true, and_true, and_assoc,
      Bool.and_eq_true, bne_iff_ne]
    tauto

/-- classes R with canonical flag and PedersenVSS (always canonical) -/
theorem checkGroup_R_canonical_iff (hpr : PrimeOracleOk prime) (P : Params) (cls : Cls) (hc : cls = .PVSS ∨ cls = .R true) :
    checkGroup cls fsize gsize prime H fuel P = .ok true ↔
      PrefixOk fsize gsize prime P.p P.q (Int.fdiv (P.p - 1) P.q) ∧
      GenOk P.h P.p P.q ∧ GenOk P.g P.p P.q ∧ P.g ≠ P.h ∧
      ggen H P.p P.q (Int.fdiv (P.p - 1) P.q) fuel (ggenStart P.p P.q) = .ok P.g := by
  rcases hc with rfl | rfl
  all_goals
    simp only [checkGroup]
    apply prefix_gate _ _ _ hpr
    intro hp hq
    simp only [orderOk_eq _ _ _ hp hq, ok_bind, gate_iff, pure_iff, bind_beq, inRange_iff, GenOk,
      decide_eq_true_iff, Bool.false_eq_true, if_false, if_true, and_true, and_assoc,
      Bool.and_eq_true, bne_iff_ne]
    tauto

/-- class NP (NaorPinkasEOTP): a single generator -/
theorem checkGroup_NP_iff (hpr : PrimeOracleOk prime) (P : Params) :
    checkGroup .NP fsize gsize prime H fuel P = .ok true ↔
      PrefixOk fsize gsize prime P.p P.q (Int.fdiv (P.p - 1) P.q) ∧ GenOk P.g P.p P.q := by
  simp only [checkGroup]
  apply prefix_gate _ _ _ hpr
  intro hp hq
  simp only [orderOk_eq _ _ _ hp hq, ok_bind, gate_iff, pure_iff, bind_beq, inRange_iff, GenOk,
    decide_eq_true_iff, Bool.false_eq_true, if_false, if_true, and_true, and_assoc,
    Bool.and_eq_true, bne_iff_ne]
  tauto

/-- class PT (PedersenTrapdoorCommitmentScheme): streamed cofactor, `g` and `h` -/
theorem checkGroup_PT_iff (hpr : PrimeOracleOk prime) (P : Params) :
    checkGroup .PT fsize gsize prime H fuel P = .ok true ↔
      PrefixOk fsize gsize prime P.p P.q P.k ∧ GenOk P.g P.p P.q ∧ GenOk P.h P.p P.q ∧ P.g ≠ P.h := by
  simp only [checkGroup]
  apply prefix_gate _ _ _ hpr
  intro hp hq
  simp only [orderOk_eq _ _ _ hp hq, ok_bind, gate_iff, pure_iff, bind_beq, inRange_iff, GenOk,
    decide_eq_true_iff, Bool.false_eq_true, if_false, if_true, and_true, and_assoc,
    Bool.and_eq_true, bne_iff_ne]
  tauto


/-- class P (PedersenCommitmentScheme; GrothSKC/GrothVSSHE delegate): `h` and `g_1..g_n`, all of
    order dividing `q`, in range, pairwise different and different from `h` -/
theorem checkGroup_P_iff (hpr : PrimeOracleOk prime) (P : Params) :
    checkGroup .P fsize gsize prime H fuel P = .ok true ↔
      PrefixOk fsize gsize prime P.p P.q P.k ∧ GenOk P.h P.p P.q ∧
      (∀ x ∈ P.gs, GenOk x P.p P.q ∧ x ≠ P.h) ∧ P.gs.Nodup := by
  simp only [checkGroup]
  apply prefix_gate _ _ _ hpr
  intro hp hq
  simp only [orderOk_eq _ _ _ hp hq, ok_bind, gate_iff, orderLoop_eq]
  by_cases hall : ∀ x ∈ P.gs, x ^ P.q.natAbs % P.p = 1
  · simp only [if_pos hall, gate_iff, pure_iff, go_iff, inRange_iff, GenOk, decide_eq_true_iff]
    constructor
    · rintro ⟨h1, h2, h3, h4⟩
      exact ⟨⟨h2.1, h2.2, h1⟩, fun x hx => ⟨⟨(h3 x hx).1.1, (h3 x hx).1.2, hall x hx⟩, (h3 x hx).2⟩, h4⟩
    · rintro ⟨⟨h1, h2, h3⟩, h4, h5⟩
      exact ⟨h3, ⟨h1, h2⟩, fun x hx => ⟨⟨(h4 x hx).1.1, (h4 x hx).1.2.1⟩, (h4 x hx).2⟩, h5⟩
  · simp only [if_neg hall, pure_iff, GenOk]
    constructor
    · rintro ⟨-, h⟩; cases h
    · rintro ⟨-, h, -⟩
      exact absurd (fun x hx => (h x hx).1.2.2) hall


/-- class QR (BarnettSmartVTMF_dlog_GroupQR): safe prime `p = 2q+1 ≡ 7 (mod 8)`, `g` a quadratic
    residue in range and equal to the shifted generator `2^(2^(|p| - E))` -/
theorem checkGroup_QR_iff (hpr : PrimeOracleOk prime) (P : Params) (esize : Nat) :
    checkGroup (.QR esize) fsize gsize prime H fuel P = .ok true ↔
      fsize ≤ bitlen P.p ∧ gsize ≤ bitlen P.q ∧ P.p = 2 * P.q + 1 ∧ prime P.p = true ∧ prime P.q = true ∧
      P.p % 8 = 7 ∧ 1 < P.g ∧ P.g < P.p - 1 ∧ jacobi P.g P.p.natAbs = 1 ∧ esize ≤ bitlen P.p ∧
      P.g = (2 : Int) ^ (2 ^ (bitlen P.p - esize)) % P.p := by
  simp only [checkGroup]
  by_cases hpp : prime P.p = true
  · have hp : 0 < P.p := by have := hpr _ hpp; omega
    have hpow : (0 : Int) ≤ 2 ^ (bitlen P.p - esize) := by positivity
    have htn : ((2 : Int) ^ (bitlen P.p - esize)).toNat = 2 ^ (bitlen P.p - esize) := by
      rw [Int.toNat_pow_of_nonneg (by norm_num)]; rfl
    simp only [Powm.mpzPowm_nonneg_eq 2 _ P.p hp hpow, htn, gateP, bind_beq, Except.ok.injEq,
      Bool.or_eq_true, decide_eq_true_iff, not_or, Nat.not_lt, bne_iff_ne, not_not,
      Bool.not_eq_true', Bool.not_eq_false, Bool.and_eq_true, inRange_iff, hpp, true_and]
    constructor
    · rintro ⟨⟨h1, h2⟩, h3, h4, h5, h6, h7, h8, h9⟩
      exact ⟨h1, h2, h3.symm, h4, h5, h6.1, h6.2, h7, h8, h9.symm⟩
    · rintro ⟨h1, h2, h3, h4, h5, h6, h6', h7, h8, h9⟩
      exact ⟨⟨h1, h2⟩, h3.symm, h4, h5, ⟨h6, h6'⟩, h7, h8, h9.symm⟩
  · simp only [gateP, Bool.not_eq_true', Bool.not_eq_false, Bool.and_eq_true, hpp, false_and,
      and_false, not_false_eq_true]
    tauto

/-- soundness of the specification: when the oracle is right about primality, an accepted class-D
    parameter set is a well-formed Schnorr group (`g` has order exactly `q`) -/
theorem checkGroup_D_sound (hpr : PrimeOracleOk prime)
    (hprime : ∀ x, prime x = true → Nat.Prime x.natAbs) (P : Params) (canonical : Bool)
    (hfit : bitlen P.q ≤ Gen.TMCG_MAX_FPOWM_T)
    (h : checkGroup (.D canonical) fsize gsize prime H fuel P = .ok true) :
    Grp.ValidGroup ⟨P.p, P.q, P.g⟩ := by
  have key : PrefixOk fsize gsize prime P.p P.q P.k ∧ GenOk P.g P.p P.q := by
    cases canonical
    · exact (checkGroup_D_iff _ _ _ _ _ hpr P).mp h
    · have := (checkGroup_D_canonical_iff _ _ _ _ _ hpr P).mp h
      exact ⟨this.1, this.2.1⟩
  obtain ⟨⟨-, -, hq, -, hp, hq', -⟩, hg1, hg2, hg3⟩ := key
  have hp1 := hpr _ hp
  exact
    { p_pos := by show 0 < P.p; omega
      q_pos := hq
      p_prime := hprime _ hp
      q_prime := hprime _ hq'
      g_gt := hg1
      g_lt := by show P.g < P.p; omega
      g_order := hg3
      q_fits := hfit }

/-- `CheckElement` decides membership in the order-`q` subgroup (Schnorr flavour) -/
theorem checkElement_iff (p q a : Int) (hp : 1 < p) (hq : 0 < q) :
    checkElement false p q a = .ok true ↔ 0 < a ∧ a < p ∧ a ^ q.natAbs % p = 1 := by
  have hqn : q.toNat = q.natAbs := by omega
  simp only [checkElement, Powm.mpzPowm_nonneg_eq a q p (by omega) hq.le, hqn, gateP, bind_beq,
    Bool.false_eq_true, if_false, Except.ok.injEq, Bool.or_eq_true, decide_eq_true_iff, not_or,
    not_le, and_assoc]

/-- the two `CheckElement` models (this file's and the sigma-protocol file's) agree -/
theorem checkElement_eq_sigma (G : Vtmf.Group) (a : Int) (hp : 1 < G.p) (hq : 0 < G.q) :
    checkElement false G.p G.q a = .ok (Sigma.checkElement .schnorr G a) := by
  unfold checkElement Sigma.checkElement
  by_cases hr : a ≤ 0 ∨ G.p ≤ a
  · have : (decide (a ≤ 0) || decide (G.p ≤ a)) = true := by simpa using hr
    simp only [this, if_true, if_pos hr]
    rfl
  · have : ¬ (decide (a ≤ 0) || decide (G.p ≤ a)) = true := by simpa using hr
    have hpn : (G.p.natAbs : Int) = G.p := by omega
    have hpt : G.p.toNat = G.p.natAbs := by omega
    have hmod : a % (G.p.natAbs : Int) = a := by
      rw [hpn]; exact Int.emod_eq_of_lt (by omega) (by omega)
    have hp0 : G.p ≠ 0 := by omega
    simp only [this, if_false, if_neg hr, Bool.false_eq_true, mpzPowm, hp0, hq.le, if_true,
      hmod, hpt, ok_bind]
    show Except.ok _ = Except.ok _
    congr 1
    rw [Bool.eq_iff_iff]
    simp only [beq_iff_eq]
    norm_cast

end Tmcg.GroupCheck
