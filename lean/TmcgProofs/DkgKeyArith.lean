import TmcgProofs.DkgKeyBase
/-
  C15, key agreement: the algebra behind the extraction phase (no protocol simulation here).

    * `binding_pair_dkg`     two openings of one Pedersen commitment with different first components
                             reveal `log_g h`: what a violation of `BindingHypG` amounts to
    * `poly_eq_of_points`    polynomials of degree `≤ t` agreeing on `t+1` party abscissae are equal
    * `feldman_unique`       a row of `t+1` group elements that satisfies equation (5) at `t+1` party
                             indices for exponents lying on `f` (degree `≤ t`) is the row of Feldman
                             commitments of `f`: `row_k = g^{f_k}`, `∏ row_k^{x^k} = g^{f(x)}` for all `x`
    * `coeff_row_val`        the row `genFinish` computes from reconstructed coefficients
    * `prod_feldman_at`      `∏_{j ∈ QUAL} ∏_k A_jk^{(m+1)^k} = g^{Σ_j f_j(m+1)}` (the verification keys)
    * `sum_shares_val`       `x_i = Σ_j s_ji` with `s_ji ≡ f_j(i+1)` has `x_i ≡ Σ_j f_j(i+1)`
-/
namespace Tmcg.DkgP
open Tmcg Tmcg.Powm Tmcg.Dkg Tmcg.Grp Tmcg.DkgL

variable {G : Dkg.Grp} [Fact (Nat.Prime G.p.natAbs)]

-- the (fixed) statements below keep the `Fact` instance arguments even where the proof does not
-- need them
set_option linter.unusedSectionVars false

/-- `g^m = 1` only for multiples of `q` -/
theorem ka_g_zpow_eq_one (hG : ValidGrp G) (m : Int) (h : cp G G.g ^ m = 1) : G.q ∣ m := by
  have hq : 0 < G.q := hG.vg.q_pos
  have h1 : cp G G.g ^ (m % G.q) = cp G G.g ^ m :=
    @zpow_mod_q (gGrp G) ‹Fact (Nat.Prime G.p.natAbs)› hG.vg (cp G G.g) (g_pow_q_eq hG) (g_unit hG) m
  rw [h] at h1
  have hr0 : 0 ≤ m % G.q := Int.emod_nonneg _ (ne_of_gt hq)
  have hr1 : m % G.q < G.q := Int.emod_lt_of_pos _ hq
  have h2 : cp G G.g ^ (m % G.q).natAbs = cp G G.g ^ 0 := by
    rw [pow_zero, ← zpow_natCast, Int.natAbs_of_nonneg hr0]
    exact h1
  have := @g_pow_inj (gGrp G) ‹Fact (Nat.Prime G.p.natAbs)› hG.vg (m % G.q).natAbs 0
    (by show (m % G.q).natAbs < G.q.natAbs; omega) (by show 0 < G.q.natAbs; omega) h2
  exact Int.dvd_of_emod_eq_zero (by omega)

/-- converse of `g_zpow_congr`: equal powers of `g` have exponents congruent mod `q` -/
theorem ka_g_zpow_inj (hG : ValidGrp G) (m n : Int) (h : cp G G.g ^ m = cp G G.g ^ n) :
    cq G m = cq G n := by
  have h1 : cp G G.g ^ (n - m) = 1 := by
    rw [zpow_sub₀ (g_unit hG), h, div_self (zpow_ne_zero _ (g_unit hG))]
  have hd := ka_g_zpow_eq_one hG _ h1
  rw [cq_eq_iff hG.vg.q_pos]
  exact (Int.modEq_iff_dvd.mpr hd)

/-- **binding**: openings `(a, b)`, `(a', b')` of one commitment with `a ≢ a' (mod q)` give `x` with
    `g^x = h` -/
theorem binding_pair_dkg (hG : ValidGrp G) (a b a' b' : Int)
    (h : cp G G.g ^ a * cp G G.h ^ b = cp G G.g ^ a' * cp G G.h ^ b') (hne : cq G a ≠ cq G a') :
    cq G b ≠ cq G b' ∧ ∃ x : Int, 0 ≤ x ∧ x < G.q ∧ cp G G.g ^ x = cp G G.h := by
  have hq : 0 < G.q := hG.vg.q_pos
  obtain ⟨e, he, hlog⟩ := @exists_log (gGrp G) ‹Fact (Nat.Prime G.p.natAbs)› hG.vg (cp G G.h)
    (h_pow_q_eq hG)
  have hlog' : cp G G.h = cp G G.g ^ (e : Int) := by rw [zpow_natCast]; exact hlog
  have he' : (e : Int) < G.q := by
    have : e < G.q.natAbs := he
    omega
  have hcomb : ∀ u v : Int, cp G G.g ^ u * cp G G.h ^ v = cp G G.g ^ (u + (e : Int) * v) := by
    intro u v
    rw [hlog', ← zpow_mul, ← zpow_add₀ (g_unit hG)]
  rw [hcomb, hcomb] at h
  have hmod := ka_g_zpow_inj hG _ _ h
  rw [cq_add, cq_add, cq_mul, cq_mul] at hmod
  refine ⟨?_, e, by omega, he', hlog'.symm⟩
  intro hb
  apply hne
  rw [hb] at hmod
  exact add_right_cancel hmod

variable [Fact (Nat.Prime G.q.natAbs)]

theorem poly_eq_of_points (hq : 0 < G.q) (t : Nat) (f f' : Polynomial (ZMod G.q.natAbs))
    (hf : f.degree < ((t + 1 : Nat) : WithBot Nat)) (hf' : f'.degree < ((t + 1 : Nat) : WithBot Nat))
    (pts : List Nat) (hp : GoodParties G.q pts) (hlen : t + 1 ≤ pts.length)
    (h : ∀ m ∈ pts, f.eval (pt G.q m) = f'.eval (pt G.q m)) : f = f' := by
  have hcard : (pts.toFinset.image (pt G.q)).card = pts.length := by
    rw [Finset.card_image_of_injOn (pt_injOn hq pts hp), List.toFinset_card_of_nodup hp.nodup]
  have hle : ((t + 1 : Nat) : WithBot Nat) ≤ ((pts.toFinset.image (pt G.q)).card : WithBot Nat) := by
    rw [hcard]; exact_mod_cast hlen
  refine Polynomial.eq_of_degrees_lt_of_eval_finset_eq (pts.toFinset.image (pt G.q))
    (lt_of_lt_of_le hf hle) (lt_of_lt_of_le hf' hle) ?_
  intro x hx
  obtain ⟨m, hm, rfl⟩ := Finset.mem_image.mp hx
  exact h m (List.mem_toFinset.mp hm)

/-! ### exponents in `ZMod q` -/

omit [Fact (Nat.Prime G.p.natAbs)] in
theorem ka_cq_val (z : ZMod G.q.natAbs) : cq G ((z.val : Nat) : Int) = z := by
  unfold cq
  rw [Int.cast_natCast, ZMod.natCast_zmod_val]

/-- an integer power of `g` as the power with the reduced exponent -/
theorem ka_gexp_cq (hG : ValidGrp G) (e : Int) : cp G G.g ^ e = cp G G.g ^ (cq G e).val := by
  rw [← zpow_natCast]
  exact g_zpow_congr hG _ _ (ka_cq_val _).symm

theorem ka_gexp_add (hG : ValidGrp G) (a b : ZMod G.q.natAbs) :
    cp G G.g ^ a.val * cp G G.g ^ b.val = cp G G.g ^ (a + b).val := by
  rw [← zpow_natCast, ← zpow_natCast, ← zpow_add₀ (g_unit hG), ka_gexp_cq hG, cq_add, ka_cq_val,
    ka_cq_val]

theorem ka_gexp_pow (hG : ValidGrp G) (a : ZMod G.q.natAbs) (n : Nat) :
    (cp G G.g ^ a.val) ^ n = cp G G.g ^ (a * (n : ZMod G.q.natAbs)).val := by
  rw [← pow_mul, ← zpow_natCast, ka_gexp_cq hG]
  congr 2
  rw [Nat.cast_mul, cq_mul, ka_cq_val, cq_natCast]

/-- `∏ (g^{c_i})^{x^{k+i}} = g^{Σ c_i x^{k+i}}` with exponents in `ZMod q` -/
theorem ka_powProd_gexp (hG : ValidGrp G) (x : Nat) (cs : List (ZMod G.q.natAbs)) (k : Nat) :
    powProdFrom x k (cs.map (fun z => cp G G.g ^ z.val)) =
      cp G G.g ^ (polyEvalFrom ((x : Nat) : ZMod G.q.natAbs) k cs).val := by
  induction cs generalizing k with
  | nil => simp [powProdFrom, polyEvalFrom]
  | cons c cs ih =>
    simp only [List.map_cons, powProdFrom, polyEvalFrom]
    rw [ih, ka_gexp_pow hG, ka_gexp_add hG, Nat.cast_pow]

theorem ka_polyEvalFrom_range' {R : Type} [CommRing R] (x : R) (c : Nat → R) (n k : Nat) :
    polyEvalFrom x k ((List.range' k n).map c) = ∑ i ∈ Finset.range n, c (k + i) * x ^ (k + i) := by
  induction n generalizing k with
  | zero => simp [polyEvalFrom]
  | succ n ih =>
    simp only [List.range'_succ, List.map_cons, polyEvalFrom]
    rw [ih, Finset.sum_range_succ', add_comm]
    congr 1
    refine Finset.sum_congr rfl (fun i _ => ?_)
    rw [show k + 1 + i = k + (i + 1) by omega]

/-- a polynomial of degree `< n` evaluates as the code does on its coefficient list -/
theorem ka_eval_coeffList (f : Polynomial (ZMod G.q.natAbs)) (n : Nat)
    (hf : f.degree < ((n : Nat) : WithBot Nat)) (x : ZMod G.q.natAbs) :
    polyEvalFrom x 0 ((List.range n).map f.coeff) = f.eval x := by
  rw [List.range_eq_range', ka_polyEvalFrom_range', eval_of_degree_lt f n hf x]
  simp

/-- value of `∏ row_k^{x^k}` for the Feldman row of a polynomial -/
theorem powProd_feldman (hG : ValidGrp G) (t : Nat) (f : Polynomial (ZMod G.q.natAbs))
    (hf : f.degree < ((t + 1 : Nat) : WithBot Nat)) (row : List (Fp G)) (hlen : row.length = t + 1)
    (hrow : ∀ k, k < t + 1 → row.getD k 0 = cp G G.g ^ (f.coeff k).val) (x : Nat) :
    powProdFrom x 0 row = cp G G.g ^ (f.eval ((x : Nat) : ZMod G.q.natAbs)).val := by
  have hrow' : row = ((List.range (t + 1)).map f.coeff).map (fun z => cp G G.g ^ z.val) := by
    apply List.ext_getElem
    · simp [hlen]
    · intro i h1 h2
      have hi : i < t + 1 := by omega
      have := hrow i hi
      rw [List.getD_eq_getElem _ _ h1] at this
      simp [this]
  rw [hrow', ka_powProd_gexp hG, ka_eval_coeffList f (t + 1) hf]

/-- coefficients of the fold that defines `polyOf` -/
theorem ka_polyFold_coeff {R : Type} [CommRing R] (n k : Nat) (c : Nat → R) (i : Nat) :
    ((List.range' k n).foldr
      (fun j acc => Polynomial.C (c j) * Polynomial.X ^ j + acc) 0).coeff i =
      if k ≤ i ∧ i < k + n then c i else 0 := by
  induction n generalizing k with
  | zero => simp
  | succ n ih =>
    simp only [List.range'_succ, List.foldr_cons, Polynomial.coeff_add,
      Polynomial.coeff_C_mul_X_pow, ih]
    split_ifs <;> first | (exfalso; omega) | (subst_vars; simp)

theorem ka_polyOf_coeff {R : Type} [CommRing R] (coef : List R) (i : Nat) :
    (polyOf coef).coeff i = coef.getD i 0 := by
  unfold polyOf
  rw [List.range_eq_range', ka_polyFold_coeff]
  by_cases h : i < coef.length
  · simp [h]
  · have : ¬ (0 ≤ i ∧ i < 0 + coef.length) := by omega
    rw [if_neg this, List.getD_eq_default _ _ (not_lt.mp h)]

/-- every list of subgroup elements is a list of powers of `g` -/
theorem ka_row_logs (hG : ValidGrp G) (row : List Int)
    (hel : ∀ c ∈ row, Dkg.checkElement G c = true) :
    ∃ cs : List (ZMod G.q.natAbs), cs.length = row.length ∧
      row.map (cp G) = cs.map (fun z => cp G G.g ^ z.val) := by
  induction row with
  | nil => exact ⟨[], rfl, rfl⟩
  | cons c row ih =>
    obtain ⟨cs, hl, hm⟩ := ih (fun c hc => hel c (List.mem_cons_of_mem _ hc))
    have hmem := ((pl_checkElement_iff hG c).mp (hel c (by simp))).2.2
    obtain ⟨e, -, hlog⟩ := @exists_log (gGrp G) ‹Fact (Nat.Prime G.p.natAbs)› hG.vg (cp G c) hmem
    have hlog' : cp G c = cp G G.g ^ (e : Int) := by rw [zpow_natCast]; exact hlog
    refine ⟨cq G (e : Int) :: cs, by simp [hl], ?_⟩
    simp only [List.map_cons, hm]
    rw [hlog', ka_gexp_cq hG]

/-- **Feldman commitments are determined by `t+1` consistent shares** -/
theorem feldman_unique (hG : ValidGrp G) (t : Nat) (f : Polynomial (ZMod G.q.natAbs))
    (hf : f.degree < ((t + 1 : Nat) : WithBot Nat)) (row : List Int) (hlen : row.length = t + 1)
    (hel : ∀ c ∈ row, Dkg.checkElement G c = true)
    (pts : List Nat) (hp : GoodParties G.q pts) (hpl : t + 1 ≤ pts.length)
    (h5 : ∀ m ∈ pts, ∃ s : Int, cq G s = f.eval (pt G.q m) ∧
      cp G G.g ^ s = powProdFrom (m + 1) 0 (row.map (cp G))) :
    (∀ k, k < t + 1 → cp G (getI row k) = cp G G.g ^ (f.coeff k).val) ∧
    (∀ x : Nat, powProdFrom x 0 (row.map (cp G)) = cp G G.g ^ (f.eval ((x : Nat) : ZMod G.q.natAbs)).val) := by
  have hq : 0 < G.q := hG.vg.q_pos
  obtain ⟨cs, hcl, hcm⟩ := ka_row_logs hG row hel
  have hφd : (polyOf cs).degree < ((t + 1 : Nat) : WithBot Nat) := by
    have := polyOf_degree_lt cs
    rwa [hcl, hlen] at this
  have hφe : ∀ x : Nat, powProdFrom x 0 (row.map (cp G)) =
      cp G G.g ^ ((polyOf cs).eval ((x : Nat) : ZMod G.q.natAbs)).val := by
    intro x
    rw [hcm, ka_powProd_gexp hG, polyOf_eval]
    rfl
  have hptc : ∀ m : Nat, pt G.q m = ((m + 1 : Nat) : ZMod G.q.natAbs) := by
    intro m; unfold pt; push_cast; rfl
  have hfφ : f = polyOf cs := by
    refine poly_eq_of_points hq t f (polyOf cs) hf hφd pts hp hpl ?_
    intro m hm
    obtain ⟨s, hs, hsv⟩ := h5 m hm
    rw [hφe (m + 1)] at hsv
    have := ka_g_zpow_inj hG s
      ((((polyOf cs).eval ((m + 1 : Nat) : ZMod G.q.natAbs)).val : Nat) : Int)
      (by rw [zpow_natCast]; exact hsv)
    rw [ka_cq_val, hs, ← hptc] at this
    exact this
  refine ⟨?_, ?_⟩
  · intro k hk
    have hkr : k < row.length := by omega
    have hkc : k < cs.length := by omega
    rw [hfφ, ka_polyOf_coeff, List.getD_eq_getElem _ _ hkc]
    unfold getI
    rw [List.getD_eq_getElem _ _ hkr]
    have := List.getElem_of_eq hcm (by simpa using hkr)
    simpa using this
  · intro x
    rw [hfφ]
    exact hφe x

theorem ka_mapM_fpowm (hG : ValidGrp G) (c : List Int) (hc : ∀ v ∈ c, 0 ≤ v ∧ v < G.q) :
    ∃ row, c.mapM (fun v => fpowm G.tabG G.g v G.p) = .ok row ∧
      (∀ v ∈ row, 0 ≤ v ∧ v < G.p) ∧ row.map (cp G) = c.map (fun v => cp G G.g ^ v) := by
  induction c with
  | nil => exact ⟨[], rfl, by simp, rfl⟩
  | cons a c ih =>
    obtain ⟨v, hv, hv0, hv1, hvv⟩ := fpowm_g hG a (natAbs_lt_of_range (hc a (by simp)))
    obtain ⟨row, hr, hrb, hrm⟩ := ih (fun v hv => hc v (List.mem_cons_of_mem _ hv))
    refine ⟨v :: row, ?_, ?_, ?_⟩
    · rw [List.mapM_cons, hv, hr]
      rfl
    · intro w hw
      rcases List.mem_cons.mp hw with rfl | hw
      · exact ⟨hv0, hv1⟩
      · exact hrb w hw
    · simp only [List.map_cons, hvv, hrm]

/-- the Feldman row `genFinish` computes from reconstructed coefficients -/
theorem coeff_row_val (hG : ValidGrp G) (t : Nat) (f : Polynomial (ZMod G.q.natAbs)) (c : List Int)
    (hlen : c.length = t + 1)
    (hc : ∀ k, k < c.length → 0 ≤ c.getD k 0 ∧ c.getD k 0 < G.q ∧ cq G (c.getD k 0) = f.coeff k) :
    ∃ row, c.mapM (fun v => fpowm G.tabG G.g v G.p) = .ok row ∧ row.length = t + 1 ∧
      (∀ v ∈ row, 0 ≤ v ∧ v < G.p) ∧
      ∀ k, k < t + 1 → cp G (getI row k) = cp G G.g ^ (f.coeff k).val := by
  have hmem : ∀ v ∈ c, 0 ≤ v ∧ v < G.q := by
    intro v hv
    obtain ⟨k, hk, rfl⟩ := List.getElem_of_mem hv
    have := hc k hk
    rw [List.getD_eq_getElem _ _ hk] at this
    exact ⟨this.1, this.2.1⟩
  obtain ⟨row, hr, hrb, hrm⟩ := ka_mapM_fpowm hG c hmem
  have hrl : row.length = c.length := by
    have := congrArg List.length hrm
    simpa using this
  refine ⟨row, hr, by omega, hrb, ?_⟩
  intro k hk
  have hkc : k < c.length := by omega
  have hkr : k < row.length := by omega
  unfold getI
  rw [List.getD_eq_getElem _ _ hkr]
  have h1 := List.getElem_of_eq hrm (by simpa using hkr)
  simp only [List.getElem_map] at h1
  rw [h1, ← zpow_natCast]
  apply g_zpow_congr hG
  have := (hc k hkc).2.2
  rw [List.getD_eq_getElem _ _ hkc] at this
  rw [this, ka_cq_val]

set_option linter.unusedVariables false in
/-- the verification key: product over QUAL of Feldman rows "evaluated in the exponent" -/
theorem prod_feldman_at (hG : ValidGrp G) (t : Nat) (qual : List Nat) (A : List (List Int))
    (fam : Nat → Polynomial (ZMod G.q.natAbs))
    (hA : ∀ j ∈ qual, ∀ x : Nat, powProdFrom x 0 ((getRow A j).map (cp G)) =
      cp G G.g ^ ((fam j).eval ((x : Nat) : ZMod G.q.natAbs)).val) (x : Nat) :
    (qual.map (fun j => powProdFrom x 0 ((getRow A j).map (cp G)))).prod =
      cp G G.g ^ ((qual.map (fun j => (fam j).eval ((x : Nat) : ZMod G.q.natAbs))).sum).val := by
  induction qual with
  | nil => simp
  | cons j qual ih =>
    simp only [List.map_cons, List.prod_cons, List.sum_cons]
    rw [hA j (by simp), ih (fun j hj => hA j (List.mem_cons_of_mem _ hj)), ka_gexp_add hG]

/-- the share `x_i = Σ_{j ∈ QUAL} s_ji mod q` when every `s_ji` lies on `f_j` -/
theorem sum_shares_val (hq : 0 < G.q) (qual : List Nat) (s : List Int) (i : Nat)
    (fam : Nat → Polynomial (ZMod G.q.natAbs))
    (hs : ∀ j ∈ qual, cq G (getI s j) = (fam j).eval (pt G.q i)) :
    cq G (sumMod G.q s qual) = (qual.map (fun j => (fam j).eval (pt G.q i))).sum := by
  rw [(sumMod_val hq s qual).1]
  congr 1
  exact List.map_congr_left hs

end Tmcg.DkgP
