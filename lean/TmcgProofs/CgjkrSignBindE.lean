import TmcgProofs.CgjkrSignBindD
/-
  C16, run level, part E: agreement and validity of the threshold DSS signature from hypotheses on the VIEWS of
  the honest parties (no polynomial common to all parties, no semantic premise about `mu` and `s`).

    * `view_of_rows`        one view: rows = Pedersen rows of `(V jt, V' jt)`, own shares on the `V jt`, library
                            multipliers, at least `2t+1` signers, binding of the one commitment per position w.r.t. the
                            pairs of the inbox, product relation for every signer  ⟹  the view is bound to a
                            polynomial with value `K(0)·A(0)` at 0
    * `RunViews`            the hypothesis of a run: at the round of step 1f (2f) every honest party's view is bound
                            to SOME polynomial of degree `≤ t` with value `k·a` (resp. `k·(m + x·r)`) at 0, and the
                            honest parties hold the same `a_dkg->y`
    * `sign_run_agree_views`, `sign_run_valid_views`
-/
namespace Tmcg.CgjkrSignBind
open Tmcg Tmcg.Powm Tmcg.Dkg Tmcg.Grp Tmcg.DkgL Tmcg.DkgP Tmcg.Cgjkr Tmcg.CgjkrSign Tmcg.CgjkrSignRunP
open Polynomial

variable {G : Dkg.Grp} [Fact (Nat.Prime G.p.natAbs)] [Fact (Nat.Prime G.q.natAbs)]

set_option linter.unusedSectionVars false
set_option linter.unusedVariables false

/-- **one view**: from the rows, the own shares and the product relation to a bound view with the right secret.
    `hV`: the rows the party holds are Pedersen rows of polynomial pairs of degree `≤ t` (`hrow_of_shares`: forced by
    `t+1` valid pairs) and the multipliers are the library's (`shEmit_spec`); `hs`, `hsh`: the own share is the
    combination of the party's shares, which lie on the `V jt` (`shEmit_spec`, `own_on_fcomb`); `hP`: binding of the
    ONE commitment per position w.r.t. the pairs in the inbox (computational: `pedBind_violation`); `hprod`: the
    secret of every signer's sharing is the product of its shares of `K` and `A` (soundness of the proofs of steps
    1c/1d resp. 2c/2d, error `1/q` each: `prod_proof_extract`; correctness of the reconstruction of step 1e / 2e). -/
theorem view_of_rows (hG : ValidGrp G) (st : SSt) (I : Inbox) (kindV : Nat)
    (V V' : Nat → Polynomial (ZMod G.q.natAbs))
    (hV : ViewRows G st kindV (fun jt => lam G.q (st.signers.map (getN st.pts)) (getN st.pts jt)) V V')
    (hs : cq G st.s = (st.signers.map (fun jt => cq G (getI st.lam jt) * cq G (ownV st kindV jt))).sum)
    (hsh : ∀ jt ∈ st.signers, st.compl.contains jt = false →
      cq G (getPv st kindV jt).sigma = (V jt).eval (pt G.q (getN st.pts st.i)))
    (hP : PedBindOcc G st I
      (Fcomb G st (fun jt => lam G.q (st.signers.map (getN st.pts)) (getN st.pts jt)) V)
      (Fcomb' G st (fun jt => lam G.q (st.signers.map (getN st.pts)) (getN st.pts jt)) V'))
    (hgp : GoodParties G.q (st.signers.map (getN st.pts))) (hlen : 2 * st.t < st.signers.length)
    (K A : Polynomial (ZMod G.q.natAbs)) (hK : K.degree < ((st.t + 1 : Nat) : WithBot Nat))
    (hA : A.degree < ((st.t + 1 : Nat) : WithBot Nat))
    (hprod : ∀ jt ∈ st.signers, (Wv G st V jt).eval 0 =
      K.eval (pt G.q (getN st.pts jt)) * A.eval (pt G.q (getN st.pts jt))) :
    ∃ F, BindsViewOcc G st I kindV F ∧ F.eval 0 = K.eval 0 * A.eval 0 := by
  refine ⟨_, bindsViewOcc_of_rows hG st I kindV _ V V' hV ?_ hP, fcomb_eval_zero hG st V hgp hlen K A hK hA hprod⟩
  exact own_on_fcomb st kindV _ V (fun jt hjt => (hV.hlam jt hjt).2) hs hsh

/-- **the hypothesis of a run, on the views of the honest parties**: at the round where the schedule has step 1f
    (resp. 2f) the view of every honest party is bound (`BindsViewOcc`: own share and checked pairs of its inbox)
    to some polynomial of degree `≤ t` whose value at 0 is `k·a` (resp. `k·(m + x·r)`, `r` the value the party
    holds); the honest parties hold the same `a_dkg->y` when they execute step 1f.  (`view_of_rows` derives the first
    two parts for one view.) -/
structure RunViews (G : Dkg.Grp) (t : Nat) (msg : Int) (sub : List Nat) (ins : List SignIn)
    (kz az xz : ZMod G.q.natAbs) : Prop where
  mu : ∀ k st I, honestS ins k → AtAct G t msg sub ins k (.shRead 0) st I →
    ∃ F, BindsViewOcc G st I 2 F ∧ F.eval 0 = kz * az
  s : ∀ k st I, honestS ins k → AtAct G t msg sub ins k (.shRead 1) st I →
    ∃ F, BindsViewOcc G st I 4 F ∧ F.eval 0 = kz * (cq G msg + xz * cq G st.r)
  y : ∀ k1 k2 st1 I1 st2 I2, honestS ins k1 → honestS ins k2 →
    AtAct G t msg sub ins k1 (.shRead 0) st1 I1 → AtAct G t msg sub ins k2 (.shRead 0) st2 I2 →
    st1.ag.y = st2.ag.y

/-- **Agreement**, from the views. -/
theorem sign_run_agree_views (hG : ValidGrp G) (t : Nat) (msg : Int) (sub : List Nat) (ins : List SignIn)
    (hnd : sub.Nodup) (hsmall : ∀ d ∈ sub, (d : Int) + 1 < G.q)
    (kz az xz : ZMod G.q.natAbs) (hB : RunViews G t msg sub ins kz az xz)
    (k1 k2 : Nat) (h1 : honestS ins k1) (h2 : honestS ins k2) (P1 P2 : Party SSt)
    (hP1 : (runSign G t msg sub ins)[k1]? = some P1) (hP2 : (runSign G t msg sub ins)[k2]? = some P2)
    (hd1 : P1.status = .ret true) (hd2 : P2.status = .ret true)
    (hr1 : P1.st.r ≠ 0) (hr2 : P2.st.r ≠ 0) :
    P1.st.r = P2.st.r ∧ P1.st.s = P2.st.s := by
  have hq : 0 < G.q := hG.vg.q_pos
  obtain ⟨sb1, Ib1, sb1', Ib1', opsb1, hAt1, hdo1, hs1, hr1', hm1, hl1⟩ := sign_run_trace' G t msg sub ins k1 P1 hP1 hd1
  obtain ⟨sb2, Ib2, sb2', Ib2', opsb2, hAt2, hdo2, hs2, hr2', hm2, hl2⟩ := sign_run_trace' G t msg sub ins k2 P2 hP2 hd2
  obtain ⟨-, -, -, -, -, hrr1, -, -⟩ := shRead1_spec G sb1 sb1' Ib1 Ib1' opsb1 hdo1
  obtain ⟨-, -, -, -, -, hrr2, -, -⟩ := shRead1_spec G sb2 sb2' Ib2 Ib2' opsb2 hdo2
  have hl1' : RLink' G t msg sub ins k1 sb1 := by
    rcases hl1 with h | h
    · exact absurd (hr1'.trans (hrr1.trans h)) hr1
    · exact h
  have hl2' : RLink' G t msg sub ins k2 sb2 := by
    rcases hl2 with h | h
    · exact absurd (hr2'.trans (hrr2.trans h)) hr2
    · exact h
  obtain ⟨sa1, Ia1, sa1', Ia1', opsa1, hAta1, hdoa1, hra1, hma1⟩ := hl1'
  obtain ⟨sa2, Ia2, sa2', Ia2', opsa2, hAta2, hdoa2, hra2, hma2⟩ := hl2'
  obtain ⟨F1, hB1, hF1⟩ := hB.mu k1 sa1 Ia1 h1 hAta1
  obtain ⟨F2, hB2, hF2⟩ := hB.mu k2 sa2 Ia2 h2 hAta2
  have hy := hB.y k1 k2 sa1 Ia1 sa2 Ia2 h1 h2 hAta1 hAta2
  -- the same `mu`, hence the same `r`
  obtain ⟨a0, a1, a2⟩ := sign_mu_val_occ hG sa1 sa1' Ia1 Ia1' opsa1 (signerSet_of_run hnd hsmall hAta1) F1 hB1 hdoa1
  obtain ⟨b0, b1, b2⟩ := sign_mu_val_occ hG sa2 sa2' Ia2 Ia2' opsa2 (signerSet_of_run hnd hsmall hAta2) F2 hB2 hdoa2
  have hmu : sa1'.mu = sa2'.mu :=
    eq_of_cast_eq hq ⟨a0, a1⟩ ⟨b0, b1⟩ (by rw [a2, b2, hF1, hF2])
  obtain ⟨_, _, mi1, rp1, _, _, _, hi1, hp1, hrv1, _⟩ := shRead0_spec G sa1 sa1' Ia1 Ia1' opsa1 hdoa1
  obtain ⟨_, _, mi2, rp2, _, _, _, hi2, hp2, hrv2, _⟩ := shRead0_spec G sa2 sa2' Ia2 Ia2' opsa2 hdoa2
  rw [hmu, hi2] at hi1
  cases hi1
  rw [hy, hp2] at hp1
  cases hp1
  have hrEq : sa1'.r = sa2'.r := by rw [hrv1, hrv2]
  have hsbr : sb1.r = sb2.r := by rw [hra1, hrEq, ← hra2]
  -- the same `s`
  obtain ⟨C1, hC1, hFs1⟩ := hB.s k1 sb1 Ib1 h1 hAt1
  obtain ⟨C2, hC2, hFs2⟩ := hB.s k2 sb2 Ib2 h2 hAt2
  obtain ⟨c0, c1, c2⟩ := sign_s_val_occ hG sb1 sb1' Ib1 Ib1' opsb1 (signerSet_of_run hnd hsmall hAt1) C1 hC1 hdo1
  obtain ⟨d0, d1, d2⟩ := sign_s_val_occ hG sb2 sb2' Ib2 Ib2' opsb2 (signerSet_of_run hnd hsmall hAt2) C2 hC2 hdo2
  have hsEq : sb1'.s = sb2'.s :=
    eq_of_cast_eq hq ⟨c0, c1⟩ ⟨d0, d1⟩ (by rw [c2, d2, hFs1, hFs2, hsbr])
  refine ⟨?_, ?_⟩
  · rw [hr1', hrr1, hsbr, ← hrr2, ← hr2']
  · rw [hs1, hsEq, ← hs2]

/-- **Validity**, from the views: with `y = g^x` the key, `a_dkg->y = g^a`, and `k·a ≠ 0`, the pair `(r, s)` of an
    honest party that completes `Sign` with `r, s ≠ 0` is accepted by the model of the library's verifier. -/
theorem sign_run_valid_views (hG : ValidGrp G) (t : Nat) (msg : Int) (sub : List Nat) (ins : List SignIn)
    (hnd : sub.Nodup) (hsmall : ∀ d ∈ sub, (d : Int) + 1 < G.q)
    (x a y : Int) (kz : ZMod G.q.natAbs) (hB : RunViews G t msg sub ins kz (cq G a) (cq G x))
    (k1 : Nat) (h1 : honestS ins k1) (P1 : Party SSt)
    (hP1 : (runSign G t msg sub ins)[k1]? = some P1) (hd1 : P1.status = .ret true)
    (hy : cp G y = cp G G.g ^ x)
    (hay : ∀ st I, AtAct G t msg sub ins k1 (.shRead 0) st I → cp G st.ag.y = cp G G.g ^ a)
    (hmu0 : kz * cq G a ≠ 0)
    (hr0 : P1.st.r ≠ 0) (hs0 : P1.st.s ≠ 0) :
    Tsig.dssVerify (gGrp G) y msg P1.st.r P1.st.s = .ok true := by
  have hq : 0 < G.q := hG.vg.q_pos
  obtain ⟨sb, Ib, sb', Ib', opsb, hAt, hdo, hs1, hr1, hm1, hl1⟩ := sign_run_trace' G t msg sub ins k1 P1 hP1 hd1
  obtain ⟨-, -, -, -, -, hrr, -, -⟩ := shRead1_spec G sb sb' Ib Ib' opsb hdo
  have hl : RLink' G t msg sub ins k1 sb := by
    rcases hl1 with h | h
    · exact absurd (hr1.trans (hrr.trans h)) hr0
    · exact h
  obtain ⟨sa, Ia, sa', Ia', opsa, hAta, hdoa, hra, hma⟩ := hl
  obtain ⟨Fmu, hB1, hmu⟩ := hB.mu k1 sa Ia h1 hAta
  obtain ⟨Fs, hC1, hs⟩ := hB.s k1 sb Ib h1 hAt
  obtain ⟨-, -, hmuv⟩ := sign_mu_val_occ hG sa sa' Ia Ia' opsa (signerSet_of_run hnd hsmall hAta) Fmu hB1 hdoa
  obtain ⟨hs0', hslt, hsv⟩ := sign_s_val_occ hG sb sb' Ib Ib' opsb (signerSet_of_run hnd hsmall hAt) Fs hC1 hdo
  obtain ⟨-, -, -, rp, -, -, -, -, -, hrp, -⟩ := shRead0_spec G sa sa' Ia Ia' opsa hdoa
  have hkz : cq G ((kz.val : Nat) : Int) = kz := ka_cq_val kz
  have hmuM : sa'.mu ≡ ((kz.val : Nat) : Int) * a [ZMOD G.q] := by
    have : cq G sa'.mu = cq G (((kz.val : Nat) : Int) * a) := by
      rw [cq_mul, hkz]
      show ((sa'.mu : Int) : ZMod G.q.natAbs) = kz * cq G a
      rw [hmuv, hmu]
    exact (DkgP.cq_eq_iff hq _ _).1 this
  have hmuM0 : ¬ sa'.mu ≡ 0 [ZMOD G.q] := by
    intro h
    have : cq G sa'.mu = cq G 0 := (DkgP.cq_eq_iff hq _ _).2 h
    apply hmu0
    rw [← hmu, ← hmuv]
    unfold cq at this
    simpa using this
  have hsM : sb'.s ≡ ((kz.val : Nat) : Int) * (sa.msg + x * sb'.r) [ZMOD G.q] := by
    have : cq G sb'.s = cq G (((kz.val : Nat) : Int) * (sa.msg + x * sb'.r)) := by
      rw [cq_mul, hkz, cq_add, cq_mul, hma, hrr]
      show ((sb'.s : Int) : ZMod G.q.natAbs) = kz * (cq G msg + cq G x * cq G sb.r)
      rw [hsv, hs]
    exact (DkgP.cq_eq_iff hq _ _).1 this
  have hrpos : 0 < sb'.r := by
    have h0 : 0 ≤ sb'.r := by rw [hrr, hra, hrp]; exact Int.emod_nonneg _ (ne_of_gt hq)
    have h1 : sb'.r ≠ 0 := by rw [← hr1]; exact hr0
    omega
  have hspos : 0 < sb'.s := by
    have h1 : sb'.s ≠ 0 := by rw [← hs1]; exact hs0
    omega
  have := sign_final_valid hG sa sa' sb sb' Ia Ia' Ib Ib' opsa opsb x ((kz.val : Nat) : Int) a y hdoa hdo hra
    (hm1.trans hma.symm) hy (hay sa Ia hAta) hmuM hmuM0 hsM hrpos hspos hslt
  rw [hma, ← hr1, ← hs1] at this
  exact this

/-- `BindsView` (CgjkrSignRun.lean) fails in every view whose rows are Pedersen rows (`ViewRows`, i.e. in every run in
    which the share checks of the back-up sharings passed) and that has a position to check: the hypothesis
    `RunBinding` of `sign_run_agree` / `sign_run_valid` (CgjkrSignRunB.lean) is unsatisfiable there. -/
theorem bindsView_unsat_of_rows (hG : ValidGrp G) (st : SSt) (kindV : Nat) (Λ : Nat → ZMod G.q.natAbs)
    (V V' : Nat → Polynomial (ZMod G.q.natAbs)) (hV : ViewRows G st kindV Λ V V') (j : Nat) (hj : j < st.m)
    (F : Polynomial (ZMod G.q.natAbs)) : ¬ BindsView G st kindV F := by
  obtain ⟨r, hr, hr0, hr1, hrv⟩ := shareRhs_ped hG st kindV Λ V V' hV j hj
  refine bindsView_unsat hG st kindV F j hj r hr ⟨hr0, hr1⟩ ?_
  rw [hrv]
  unfold ped
  rw [mul_pow, ← pow_mul, ← pow_mul, mul_comm _ G.q.natAbs, mul_comm _ G.q.natAbs, pow_mul, pow_mul,
    g_pow_q_eq hG, h_pow_q_eq hG, one_pow, one_pow, one_mul]

end Tmcg.CgjkrSignBind
