# Predicate for the "arith2" part of C09 (conventions of /verif/tools/props.py: toks, tag_of, plist, ilist).
# Judges, independently of the Lean model:
#   prop.arith2.prime   defining relations + sizes of every generated prime (own Miller-Rabin)
#   arith2.mpi.roundtrip  mpz -> gcry_mpi -> mpz is the identity on non-negative integers
#   arith2.interp       the returned coefficients reproduce the points / colliding abscissae are refused
#   arith2.bigint.seq   the two back ends end every operation sequence with the same value
#   arith2.bigint       plain/secure single operators on non-negative operands against Python integers
#   prop.arith2.size    mpz_sizeinbase for bases 10 / 62: exact or one more
import math

try:
    from props import toks, tag_of, plist, ilist, is_err  # when pasted into tools/props.py these exist already
except Exception:  # stand-alone use
    def toks(line):
        lhs, _, rhs = line.partition(" => ")
        a = lhs.split(" ")
        return a[0], a[1:], rhs.split(" ") if rhs else []

    def plist(s):
        s = s.strip()
        assert s[0] == "[" and s[-1] == "]", s
        s = s[1:-1]
        return [] if not s else s.split(",")

    def ilist(s):
        return [int(x) for x in plist(s)]

    def tag_of(a):
        return a[-1][4:] if a and a[-1].startswith("tag:") else ""

    def is_err(rhs):
        return bool(rhs) and (rhs[0].startswith("throw") or rhs[0].startswith("trap") or rhs[0] in ("reject",))

_MR_BASES = (2, 3, 5, 7, 11, 13, 17, 19, 23, 29, 31, 37, 41, 43, 47, 53, 59, 61, 67, 71)


def is_prime_mr(n):
    """strong pseudoprime test to 20 fixed prime bases (exact below 3.3e24) plus 12 bases derived from n"""
    if n < 2:
        return False
    for p in _MR_BASES:
        if n == p:
            return True
        if n % p == 0:
            return False
    d, s = n - 1, 0
    while d % 2 == 0:
        d //= 2
        s += 1
    bases = list(_MR_BASES)
    x = n
    for _ in range(12):  # deterministic extra bases
        x = (x * 6364136223846793005 + 1442695040888963407) % (1 << 64)
        bases.append(2 + x % (n - 3))
    for a in bases:
        y = pow(a, d, n)
        if y == 1 or y == n - 1:
            continue
        for _ in range(s - 1):
            y = y * y % n
            if y == n - 1:
                break
        else:
            return False
    return True


SAFE_FNS = ("sprime", "smprime", "sprime_naive", "smprime_naive", "sprime_noninc", "sprime2g")
VALUE_CHARS = 4096  # TMCG_MAX_VALUE_CHARS: capacity of the text buffer of tmcg_mpz_set_gcry_mpi


def _prime_line(a, r):
    fn, psize, qsize, mr, kin = a[0], int(a[1]), int(a[2]), int(a[3]), int(a[4])
    if is_err(r):
        if fn in ("lprime", "lprime_prefix") and qsize >= psize and r[0] == "throw:invalid_argument":
            return None
        return "%s(%d,%d) failed: %s" % (fn, psize, qsize, r[0])
    if fn in ("lprime", "lprime_prefix") and qsize >= psize:
        return "%s accepted qsize >= psize" % fn
    p, q, k = int(r[0]), int(r[1]), int(r[2])
    if p <= 0 or not is_prime_mr(p):
        return "%s returned a composite p = %d" % (fn, p)
    if p.bit_length() < psize:
        return "%s: p has %d bits, %d requested" % (fn, p.bit_length(), psize)
    if fn in ("oprime", "oprime_noninc"):
        return None if p % 2 == 1 else "%s returned an even number" % fn
    if fn == "sprime3mod4":
        return None if p % 4 == 3 else "sprime3mod4: p = %d mod 4" % (p % 4)
    if q <= 0 or not is_prime_mr(q):
        return "%s returned a composite q = %d" % (fn, q)
    if q.bit_length() < qsize:
        return "%s: q has %d bits, %d requested" % (fn, q.bit_length(), qsize)
    if fn in SAFE_FNS:
        if p != 2 * q + 1:
            return "%s: p != 2q+1" % fn
        if fn == "sprime2g":
            if p % 8 != 7:
                return "sprime2g: p = %d mod 8" % (p % 8)
            if pow(2, q, p) != 1:
                return "sprime2g: 2 does not generate the subgroup of order q"
        return None
    if fn in ("lprime", "lprime_prefix"):
        if p != k * q + 1:
            return "%s: p != kq+1" % fn
        if math.gcd(k, q) != 1:
            return "%s: gcd(k,q) != 1" % fn
        if k % 2 != 0:
            return "%s: odd cofactor" % fn
        if fn == "lprime_prefix":
            kk = kin
            while kk.bit_length() < psize - qsize:
                kk *= 62
            if kk % 2:
                kk += 1
            if kk != k:
                return "lprime_prefix: cofactor does not continue the given prefix"
        return None
    return "unknown generator %s" % fn


def _bigint_ref(op, x, y, z):
    """Python value of one operator on non-negative operands (None: not judged here)"""
    if op in ("add", "add_ui"):
        return x + y
    if op in ("sub", "sub_ui"):
        return x - y
    if op in ("mul", "mul_ui"):
        return x * y
    if op in ("div", "div_ui"):
        return None if y == 0 else x // y
    if op in ("mod", "mod_ui"):
        return None if y == 0 else x % y
    if op == "neg":
        return -x
    if op == "abs":
        return abs(x)
    if op in ("assign", "assign_ui", "assign_si"):
        return y
    if op in ("copy", "from_mpz"):
        return x
    if op in ("eq", "eq_ui", "eq_si"):
        return int(x == y)
    if op in ("ne", "ne_ui", "ne_si"):
        return int(x != y)
    if op in ("gt", "gt_ui"):
        return int(x > y)
    if op in ("lt", "lt_ui"):
        return int(x < y)
    if op in ("ge", "ge_ui"):
        return int(x >= y)
    if op in ("le", "le_ui"):
        return int(x <= y)
    if op == "mul2exp":
        return x << y
    if op == "div2exp":
        return x >> y
    if op == "ui_pow_ui":
        return y ** z
    if op in ("powm", "powm_ui"):
        return None if z <= 0 or y < 0 else pow(x, y, z)
    if op == "get_ui":
        return x % (1 << 64)
    if op == "size":
        if y in (2, 4, 8, 16, 32):
            j = y.bit_length() - 1
            return max(1, -(-x.bit_length() // j))
        return None
    if op == "probab_prime":
        return int(is_prime_mr(x))
    return None


def pred_c09b(line, st):
    op, a, r = toks(line)
    tag = tag_of(a)
    if tag:
        a = a[:-1]
    if op == "prop.arith2.prime":
        return _prime_line(a, r)
    if op == "arith2.mpi.roundtrip":
        v = int(a[0])
        if v < 0:
            return None  # outside the property
        if r[0] == str(v):
            return None
        if r[0] == "false" and v.bit_length() > 4 * (VALUE_CHARS - 4):
            return None  # explicit refusal at the capacity of the text buffer, nothing lost silently
        return "conversion mpz -> mpi -> mpz of a non-negative integer (%d bits) gave %s" % (v.bit_length(), r[0])
    if op == "arith2.interp":
        if tag == "badsize":
            return None if r[0] == "throw:invalid_argument" else "bad arguments must be refused"
        A, B, q = ilist(a[0]), ilist(a[1]), int(a[2])
        if q < 2 or not is_prime_mr(q):
            return None
        distinct = len(set(x % q for x in A)) == len(A)
        if not distinct:
            return None if r[0] == "false" else "colliding abscissae were not refused"
        if is_err(r) or r[0] == "false":
            return "interpolation failed on pairwise distinct abscissae: %s" % r[0]
        f = ilist(r[0])
        if len(f) != len(A):
            return "wrong number of coefficients"
        for x, y in zip(A, B):
            if (sum(c * pow(x, i, q) for i, c in enumerate(f)) - y) % q != 0:
                return "the interpolated polynomial misses the point (%d,%d)" % (x, y)
        return None
    if op == "arith2.bigint.seq":
        key = (a[1], a[2])
        other = st.setdefault("c09b.seq", {})
        if a[0] == "0":
            other[key] = r
            return None
        prev = other.pop(key, None)
        if prev is None:
            return "sequence without its plain twin"
        return None if prev == r else "plain and secure back end differ after a sequence: %s vs %s" % (" ".join(prev), " ".join(r))
    if op == "arith2.bigint":
        mode, bop, x, y, z = int(a[0]), a[1], int(a[2]), int(a[3]), int(a[4])
        if tag.startswith("fatal"):
            return None
        if min(x, y, z) < 0 or r[0].startswith("throw"):
            return None  # refusals are judged against the model's table
        ref = _bigint_ref(bop, x, y, z)
        if ref is None:
            return None
        return None if r[0] == str(ref) else "TMCG_Bigint %s (mode %d) returned %s, expected %d" % (bop, mode, r[0], ref)
    if op == "prop.arith2.size":
        v, base, n = int(a[0]), int(a[1]), int(r[0])
        exact, t = 1, abs(v)
        while t >= base:
            t //= base
            exact += 1
        return None if exact <= n <= exact + 1 else "size in base %d: %d, exact %d" % (base, n, exact)
    return None
