#!/usr/bin/env python3
"""MANIFEST.setup_cmd: build everything once, offline, from files on disk:
the sanitizer build of /repo/src + harness, the generated constants, the Lean project."""
import os, subprocess, sys
HERE = os.path.dirname(os.path.abspath(__file__))
sys.path.insert(0, HERE)
import build_repo, gen_constants
VERIF = os.path.dirname(HERE)
exe = build_repo.build(build_repo.harness_sources(), "tmcg_harness", "san")
print("harness:", exe)
gen_constants.main()
r = subprocess.run(["lake", "build"], cwd=os.path.join(VERIF, "lean"))
sys.exit(r.returncode)
