#!/usr/bin/env python3
"""MANIFEST.setup_cmd: build once, offline, from files on disk, what the registered checks need:
the sanitizer and the plain build of /repo/src + harness, the generated constants, the Lean model
driver and the property module of every claimed property (not work-in-progress proof files of
areas that are not registered yet).  Every check rebuilds what it needs itself; this only warms
the caches."""
import os, subprocess, sys
HERE = os.path.dirname(os.path.abspath(__file__))
sys.path.insert(0, HERE)
import build_repo, gen_constants, props
VERIF = os.path.dirname(HERE)
for fl in ("san", "fast"):
    exe = build_repo.build(build_repo.harness_sources(), "tmcg_harness", fl)
    print("harness:", exe)
gen_constants.main()
targets = ["tmcg_model"] + sorted({P["module"] for P in props.PROPS.values() if P["obligations"]})
r = subprocess.run(["lake", "build"] + targets, cwd=os.path.join(VERIF, "lean"))
sys.exit(r.returncode)
