#!/usr/bin/env python3
"""store_seed.py <label> <property> <confirm-log> <detected-json> : copy a confirmed seeded change from
/tmp/seed-<label>-out into /verif/seeded/<label>/ with meta.json"""
import json, os, shutil, sys
lab, prop, conf, det = sys.argv[1:5]
src = "/tmp/seed-%s-out" % lab
dst = os.path.join(os.path.dirname(os.path.dirname(os.path.abspath(__file__))), "seeded", lab)
os.makedirs(dst, exist_ok=True)
for f in ("patch.diff", "demo.cc", "demo.sh", "notes.md"):
    if os.path.exists(os.path.join(src, f)):
        shutil.copy(os.path.join(src, f), dst)
notes = open(os.path.join(src, "notes.md")).read() if os.path.exists(os.path.join(src, "notes.md")) else ""
meta = {"id": lab, "property": prop,
        "summary": notes.strip().splitlines()[0][:300] if notes else "",
        "needs_to_manifest": "see notes.md (written by the seeding agent, who had no access to /verif)",
        "confirmed": open(conf).read().strip() if os.path.exists(conf) else "NOT CONFIRMED",
        "confirm_cmd": "tools/confirm_seed.sh %s '<tests>' (scratch worktree /tmp/seed-%s, outside /repo and /verif)" % (lab, lab),
        "detected_by": json.loads(det),
        "ran": "python3 tools/seedtest.py seeded/%s/patch.diff <ids>" % lab}
json.dump(meta, open(os.path.join(dst, "meta.json"), "w"), indent=1)
print("stored", dst)
