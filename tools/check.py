#!/usr/bin/env python3
"""check.py <ID> [--tier quick|thorough] [--replay FILE]

One check = (DESIGN.md §2.1)
  1. rebuild the implementation + harness from /repo's current working tree (sanitizers on)
  2. regenerate lean/Tmcg/Gen/*.lean from the source
  3. lake build: model driver + the property's theorems (re-checked against the regenerated constants)
  4. audit: forbidden constructs, `#print axioms` of every obligation theorem
  5. correspondence: harness trace vs model driver, line by line
  6. verdict: on a broken obligation / correspondence search for a concrete failing input
  7. evidence/<ID>.json
Exit 0: property held on everything explored.  Exit 1: a line
  VIOLATION property=<ID> replay=<path> [no-failing-input-found]
"""
import collections
import hashlib
import json
import os
import re
import subprocess
import sys
import time

HERE = os.path.dirname(os.path.abspath(__file__))
VERIF = os.path.dirname(HERE)
sys.path.insert(0, HERE)
import build_repo  # noqa: E402
import gen_constants  # noqa: E402
import props  # noqa: E402

LEAN = os.path.join(VERIF, "lean")
MODEL_EXE = os.path.join(LEAN, ".lake", "build", "bin", "tmcg_model")
ALLOWED_AXIOMS = {"propext", "Classical.choice", "Quot.sound"}
FORBIDDEN = re.compile(r"\bsorry\b|\badmit\b|^\s*axiom\s|native_decide|bv_decide|implemented_by|\bunsafe\s|maxHeartbeats\s+0|extern\s")


def log(msg):
    sys.stderr.write("[check] %s\n" % msg)
    sys.stderr.flush()


def run(cmd, **kw):
    return subprocess.run(cmd, capture_output=True, text=True, **kw)


# ------------------------------------------------------------------ Lean side
def lake_lock():
    import fcntl
    os.makedirs(os.path.join(VERIF, ".cache"), exist_ok=True)
    f = open(os.path.join(VERIF, ".cache", "lake.lock"), "w")
    fcntl.flock(f, fcntl.LOCK_EX)
    return f


def lake_build(targets):
    """returns (ok, output)"""
    lk = lake_lock()
    try:
        r = run(["lake", "build"] + targets, cwd=LEAN)
        return r.returncode == 0, (r.stdout + r.stderr)
    finally:
        lk.close()


def strip_comments(txt):
    # remove /- ... -/ (nested) and -- ... comments, and string literals
    out = []
    i = 0
    depth = 0
    n = len(txt)
    while i < n:
        if txt.startswith("/-", i):
            depth += 1
            i += 2
            continue
        if depth and txt.startswith("-/", i):
            depth -= 1
            i += 2
            continue
        if depth:
            if txt[i] == "\n":
                out.append("\n")
            i += 1
            continue
        if txt.startswith("--", i):
            while i < n and txt[i] != "\n":
                i += 1
            continue
        if txt[i] == '"':
            i += 1
            while i < n and txt[i] != '"':
                i += 2 if txt[i] == "\\" else 1
            i += 1
            out.append('""')
            continue
        out.append(txt[i])
        i += 1
    return "".join(out)


def import_closure(module):
    """local modules (Tmcg*, TmcgProofs*, TmcgProps*) transitively imported by `module`, plus the driver"""
    seen = set()
    todo = [module, "Main", "Tmcg.Driver"]
    while todo:
        m = todo.pop()
        if m in seen:
            continue
        p = os.path.join(LEAN, m.replace(".", "/") + ".lean")
        if not os.path.exists(p):
            continue
        seen.add(m)
        for mm in re.findall(r"^import\s+(\S+)", open(p).read(), re.M):
            if mm.split(".")[0] in ("Tmcg", "TmcgProofs", "TmcgProps"):
                todo.append(mm)
    return sorted(seen)


def audit_sources(module):
    """grep every Lean source the property's theorems and the driver depend on (comments
    stripped) for forbidden constructs"""
    hits = []
    for m in import_closure(module):
        p = os.path.join(LEAN, m.replace(".", "/") + ".lean")
        for ln, line in enumerate(strip_comments(open(p).read()).splitlines(), 1):
            if FORBIDDEN.search(line):
                hits.append("%s:%d: %s" % (os.path.relpath(p, LEAN), ln, line.strip()[:120]))
    return hits


def audit_axioms(module, theorems):
    """`#print axioms` for each theorem; returns {theorem: set(axioms)} or {theorem: None} if missing"""
    src = "import %s\n" % module + "".join("#print axioms %s\n" % t for t in theorems)
    tmp = os.path.join(VERIF, ".cache", "audit-%s-%d.lean" % (module, os.getpid()))
    open(tmp, "w").write(src)
    try:
        r = run(["lake", "env", "lean", tmp], cwd=LEAN)
    finally:
        os.unlink(tmp)
    txt = r.stdout + r.stderr
    res = {}
    for t in theorems:
        m = re.search(r"'%s' depends on axioms: \[(.*?)\]" % re.escape(t), txt, re.S)
        if m:
            res[t] = set(x.strip() for x in m.group(1).replace("\n", " ").split(",") if x.strip())
        elif re.search(r"'%s' does not depend on any axioms" % re.escape(t), txt):
            res[t] = set()
        else:
            res[t] = None
    return res, txt


# ------------------------------------------------------------------ correspondence
HARNESS_RETRIES = []


def run_harness(exe, area, seed, cases, tier, extra):
    env = dict(os.environ)
    env["ASAN_OPTIONS"] = "detect_leaks=0:abort_on_error=0:allocator_may_return_null=1"
    env["UBSAN_OPTIONS"] = "print_stacktrace=1"
    cmd = [exe, area, "--seed", str(seed), "--cases", str(cases), "--tier", tier] + list(extra)
    # a run that was killed from outside or produced no trace at all (machine overload, a cache file pruned by a
    # concurrent build) says nothing about the property: it is repeated, at most twice; a deterministic crash stays
    r, out = None, ""
    for attempt in range(3):
        if not os.path.exists(exe):   # pruned from the cache by a concurrent build: build it again
            exe = build_repo.build(build_repo.harness_sources(), "tmcg_harness", "fast" if "-fast-" in exe else "san", quiet=True)
            cmd[0] = exe
        r = subprocess.run(cmd, capture_output=True, env=env)
        out = r.stdout.decode(errors="replace")
        if r.returncode >= 0 and out.strip():
            break
        log("harness run gave no trace (rc %d), attempt %d" % (r.returncode, attempt + 1))
        HARNESS_RETRIES.append((area, r.returncode))
    return cmd, r.returncode, out, r.stderr.decode(errors="replace")


def run_model(trace_text):
    # the executable is replaced when a concurrent job relinks it: wait for it / link it again
    for attempt in range(4):
        if os.path.exists(MODEL_EXE):
            break
        time.sleep(5)
        run(["lake", "build", "tmcg_model"], cwd=LEAN)
    r = subprocess.run([MODEL_EXE], input=trace_text.encode(), capture_output=True)
    return r.returncode, r.stdout.decode(errors="replace"), r.stderr.decode(errors="replace")


def split_line(l):
    if " => " in l:
        a, b = l.split(" => ", 1)
    else:
        a, b = l, ""
    return a, b


def write_replay(pid, payload):
    rdir = os.environ.get("VERIF_REPLAY_DIR") or os.path.join(VERIF, "replays")
    os.makedirs(rdir, exist_ok=True)
    blob = json.dumps(payload, indent=1, sort_keys=True)
    h = hashlib.sha256(blob.encode()).hexdigest()[:12]
    path = os.path.join(rdir, "%s-%s.json" % (pid, h))
    open(path, "w").write(blob)
    return path


def load_known():
    p = os.path.join(VERIF, "known_findings.json")
    if not os.path.exists(p):
        return []
    return json.load(open(p)).get("findings", [])


def match_known(pid, line, msg, known):
    for k in known:
        if k.get("status") != "known" or k.get("property") != pid:
            continue
        pat = k.get("line_regex")
        mpat = k.get("msg_regex")     # optional: the failure message must match too (same line class, different failure: still reported)
        if pat and re.search(pat, line or "") and (not mpat or re.search(mpat, msg or "")):
            return k
    return None


# ------------------------------------------------------------------ main
def main():
    args = sys.argv[1:]
    if not args:
        print(__doc__)
        return 2
    pid = args[0]
    tier = os.environ.get("VERIF_TIER", "quick")
    replay = None
    i = 1
    while i < len(args):
        if args[i] == "--tier":
            tier = args[i + 1]; i += 2
        elif args[i] == "--replay":
            replay = args[i + 1]; i += 2
        else:
            i += 1
    seed = int(os.environ.get("VERIF_SEED", "1"))
    replay_payload = None
    if replay:
        # replay of a recorded violation: the same seed and tier, the whole check again on the CURRENT tree;
        # afterwards the recorded failing line / message is looked up among the failures of this run
        replay_payload = json.load(open(replay))
        seed = int(replay_payload.get("seed", seed))
        hc = replay_payload.get("harness_cmd") or []
        if "--tier" in hc:
            tier = hc[hc.index("--tier") + 1]
    if pid not in props.PROPS:
        print("unknown property %s" % pid)
        return 2
    P = props.PROPS[pid]
    t0 = time.time()
    known = load_known()
    violations = []      # (kind, replay_path, found_input: bool, text)
    known_hits = []
    notes = []

    # 1. implementation + harness
    log("building /repo working tree + harness (sanitizers)")
    flavours = sorted({(ar[3] if len(ar) > 3 else "san") for ar in P["areas"]})
    exes = {fl: build_repo.build(build_repo.harness_sources(), "tmcg_harness", fl, quiet=True) for fl in flavours}
    # 2. generated layer
    gen_constants.main()
    # 3. Lean build
    log("lake build (driver + %s)" % P["module"])
    ok_model, out_model = lake_build(["tmcg_model"])
    if not ok_model:
        # the generated constants no longer fit the model (or the model is broken)
        sys.stderr.write(out_model[-3000:])
    ok_props, out_props = lake_build([P["module"]])
    broken_obligations = []
    obligations = [t for t, _ in P["obligations"]]
    status = {t: s for t, s in P["obligations"]}
    discharged = []
    axioms_seen = set()
    if not ok_props:
        sys.stderr.write(out_props[-3000:])
        broken_obligations = list(obligations)
        notes.append("lake build of %s failed" % P["module"])
    else:
        # 4. audit
        hits = audit_sources(P["module"])
        if hits:
            broken_obligations = list(obligations)
            notes.append("forbidden construct in Lean sources: " + "; ".join(hits[:5]))
        else:
            ax, txt = audit_axioms(P["module"], obligations)
            for t in obligations:
                if ax[t] is None:
                    broken_obligations.append(t)
                    notes.append("theorem %s not found" % t)
                elif not ax[t] <= ALLOWED_AXIOMS:
                    broken_obligations.append(t)
                    notes.append("theorem %s depends on %s" % (t, sorted(ax[t] - ALLOWED_AXIOMS)))
                else:
                    discharged.append(t)
                    axioms_seen |= ax[t]
            if tier == "thorough" and not broken_obligations:
                lk = lake_lock()
                try:
                    r = run(["lake", "env", "leanchecker", P["module"]], cwd=LEAN)
                finally:
                    lk.close()
                if r.returncode != 0:
                    broken_obligations = list(obligations)
                    notes.append("leanchecker rejected %s: %s" % (P["module"], (r.stdout + r.stderr)[-500:]))
                else:
                    notes.append("leanchecker re-checked %s" % P["module"])

    # 5. correspondence
    evaluations = 0
    distinct = set()
    ophist = collections.Counter()
    outkinds = collections.Counter()
    samples = []
    mismatches = []     # (area, cmd, impl_line, model_line)
    pred_failures = []  # (area, cmd, impl_line, msg)
    all_impl_lines = []
    san_reports = []
    for ar in P["areas"]:
        area, sizes, extra = ar[0], ar[1], ar[2]
        exe = exes[ar[3] if len(ar) > 3 else "san"]
        cases = sizes[tier]
        log("correspondence: area %s, %d cases, seed %d" % (area, cases, seed))
        cmd, rc, out, err = run_harness(exe, area, seed, cases, tier, extra)
        if rc != 0 or "ERROR: AddressSanitizer" in err or "runtime error:" in err:
            san_reports.append((area, cmd, rc, err[-2500:]))
        if not ok_model:
            mismatches.append((area, cmd, "(model driver does not build)", out_model[-800:]))
            continue
        mrc, mout, merr = run_model(out)
        il = out.splitlines()
        ml = mout.splitlines()
        if mrc != 0 or len(il) != len(ml):
            mismatches.append((area, cmd, "(stream length %d vs %d, model rc %d)" % (len(il), len(ml), mrc), merr[-500:]))
        for a, b in zip(il, ml):
            if a.startswith("#"):
                continue
            evaluations += 1
            lhs, rhs = split_line(a)
            op = lhs.split(" ", 1)[0]
            ophist[op] += 1
            kind = rhs.split(" ", 1)[0] if (rhs.startswith("throw") or rhs.startswith("trap") or rhs in ("reject", "exhausted")) else "value"
            outkinds[op + ":" + kind] += 1
            distinct.add(hashlib.md5(a.encode()).digest())
            if len(samples) < 6 and (evaluations % 97 == 1):
                samples.append(a[:300])
            if a != b:
                mismatches.append((area, cmd, a, b))
            all_impl_lines.append((area, cmd, a))
    # direct evaluation of the property on the implementation's outputs
    pred = P.get("predicate")
    if pred:
        state = {}
        for (area, cmd, a) in all_impl_lines:
            try:
                msg = pred(a, state)
            except Exception as e:  # a predicate bug must not pass silently
                msg = "predicate error: %r" % (e,)
            if msg:
                pred_failures.append((area, cmd, a, msg))
        fin = P.get("final")
        if fin:
            msg = fin(state)
            if msg:
                pred_failures.append(("-", [], "(aggregate)", msg))

    # 6. verdict
    def report(kind, payload, found, line_for_known=""):
        k = match_known(pid, line_for_known, payload.get("message", ""), known)
        if k:
            known_hits.append(k)
            return
        path = write_replay(pid, payload)
        violations.append((kind, path, found))

    # failures that are listed known findings are set aside first: they must neither use up the
    # report quota nor hide a correspondence mismatch that has another cause
    unlisted = []
    for pf in pred_failures:
        k = match_known(pid, pf[2], pf[3], known)
        if k:
            known_hits.append(k)
        else:
            unlisted.append(pf)
    seen_msgs = set()
    for (area, cmd, a, msg) in unlisted:
        if msg in seen_msgs or len(seen_msgs) >= 3:
            continue
        seen_msgs.add(msg)
        report("failing-input", {"property": pid, "kind": "failing-input", "harness_cmd": cmd, "seed": seed,
                                 "trace_line": a, "message": msg,
                                 "how_to_replay": "run harness_cmd, feed the line to lean/.lake/build/bin/tmcg_model; tools/check.py %s --replay <this file>" % pid},
               True, a)
    for (area, cmd, rc, err) in san_reports:
        report("sanitizer", {"property": pid, "kind": "sanitizer-or-crash", "harness_cmd": cmd, "seed": seed,
                             "exit_code": rc, "stderr_tail": err,
                             "message": "harness run ended abnormally (sanitizer report, signal or uncaught exception)"},
               True, err)
    if mismatches and not unlisted:
        # correspondence broke, the direct predicate saw nothing on this run: widen the search
        found = None
        if pred:
            log("correspondence mismatch; searching for a failing input on other seeds")
            for s2 in range(seed + 1, seed + 1 + (4 if tier == "quick" else 12)):
                for ar in P["areas"]:
                    area, sizes, extra = ar[0], ar[1], ar[2]
                    cmd, rc, out, err = run_harness(exes[ar[3] if len(ar) > 3 else "san"], area, s2, sizes[tier] * 2, tier, extra)
                    st = {}
                    for a in out.splitlines():
                        try:
                            msg = pred(a, st)
                        except Exception as e:
                            msg = None
                        if msg and not match_known(pid, a, msg, known):
                            found = (cmd, a, msg)
                            break
                    if found:
                        break
                if found:
                    break
        area, cmd, a, b = mismatches[0]
        if found:
            report("failing-input", {"property": pid, "kind": "failing-input", "harness_cmd": found[0],
                                     "trace_line": found[1], "message": found[2],
                                     "first_correspondence_mismatch": {"impl": a[:2000], "model": b[:2000]}}, True, found[1])
        else:
            report("correspondence", {"property": pid, "kind": "correspondence-broken",
                                      "correspondence": "harness area '%s' vs lean model driver" % area,
                                      "harness_cmd": cmd, "seed": seed, "mismatches": len(mismatches),
                                      "first_mismatch": {"impl": a[:4000], "model": b[:4000]},
                                      "message": "model and implementation disagree; no input on which the property itself fails was found"},
                   False, a)
    if broken_obligations:
        report("obligation", {"property": pid, "kind": "proof-obligation-broken", "theorems": broken_obligations,
                              "notes": notes, "lake_output_tail": out_props[-3000:],
                              "message": "theorem(s) no longer check against the model regenerated from /repo"},
               bool(unlisted), "")

    hit_ids = {k.get("id") for k in known_hits}
    for kk in known:
        if kk.get("status") == "known" and kk.get("property") == pid:
            print("KNOWN-FINDING: property=%s %s%s" % (pid, kk.get("what", ""),
                  "" if kk.get("id") in hit_ids else " (listed; not exercised by this run's seed)"))

    wall = time.time() - t0
    # 7. evidence
    full = [t for t in discharged if status[t] == "full"]
    ev = {
        "property_id": pid, "tier": tier, "seed": seed, "level": "proof",
        "coverage": {
            "obligations": len(obligations), "discharged": len(discharged),
            "obligation_names": obligations,
            "partial_obligations": [t for t in obligations if status[t] != "full"],
            "checker_cmd": "cd /verif/lean && lake build %s && lake env lean <#print axioms of every obligation>%s"
                           % (P["module"], " && lake env leanchecker %s" % P["module"] if tier == "thorough" else ""),
            "trusted_base": sorted("axiom " + a for a in axioms_seen) + P.get("trusted", []) + [
                "Lean 4.33.0 kernel, Mathlib v4.33.0",
                "correspondence harness (harness/*.cc, interposed libgcrypt randomness), tools/check.py, tools/props.py predicates",
                "tools/gen_constants.py (constants compiled from /repo headers)",
                "compiled Lean driver computes what the kernel would (Lean compiler, GMP in the Lean runtime)"],
            "evaluations": evaluations, "distinct_nontrivial": len(distinct),
            "rule": P.get("rule", "one trace line per operation produced by the seeded generators of the harness areas; distinct = distinct full lines (inputs+outputs); non-trivial = every line exercises the real library entry point"),
            "op_histogram": dict(ophist), "outcome_histogram": dict(outkinds),
            "samples": samples + [{"theorem": t} for t in obligations[:4]],
            "correspondence_mismatches": len(mismatches),
            "direct_property_failures": len(pred_failures),
            "sanitizer_reports": len(san_reports),
            "notes": notes + (["harness runs repeated because they gave no trace (killed / overloaded): %r" % (HARNESS_RETRIES,)] if HARNESS_RETRIES else []),
            "exhaustive": False,
        },
        "assumptions": P.get("assumptions", []),
        "wall_s": round(wall, 2),
        "violations": len(violations),
    }
    # seeded-change trials (tools/seedtest.py) run against a scratch tree: their evidence is not the repo's
    evdir = os.environ.get("VERIF_EVIDENCE_DIR") or os.path.join(VERIF, "evidence")
    os.makedirs(evdir, exist_ok=True)
    json.dump(ev, open(os.path.join(evdir, "%s.json" % pid), "w"), indent=1, sort_keys=True)

    if replay_payload is not None:
        want_line = (replay_payload.get("trace_line") or "").split(" => ")[0]
        want_msg = replay_payload.get("message", "")
        again = False
        for kind, path, found in violations:
            try:
                d = json.load(open(path))
            except Exception:
                continue
            if (want_line and (d.get("trace_line") or "").split(" => ")[0] == want_line) or (want_msg and d.get("message") == want_msg) \
                    or (not want_line and d.get("kind") == replay_payload.get("kind")):
                again = True
        print("REPLAY file=%s reproduced=%s (violations in this run: %d)" % (replay, "yes" if again else "no", len(violations)))
        if again:
            print("VIOLATION property=%s replay=%s" % (pid, replay))
            return 1
        return 0
    if violations:
        for kind, path, found in violations[:5]:
            print("VIOLATION property=%s replay=%s%s" % (pid, path, "" if found else " no-failing-input-found"))
        return 1
    print("OK property=%s tier=%s seed=%d obligations=%d/%d evaluations=%d wall=%.1fs" %
          (pid, tier, seed, len(discharged), len(obligations), evaluations, wall))
    return 0


if __name__ == "__main__":
    sys.exit(main())
