def pred_c13b(line, st):
    """C13, second part (area aio2): chunked mode, the non-blocking class, several peers.
    Judged on what the real objects delivered, independent of the Lean model."""
    from props import toks, tag_of, plist, ilist
    op, a, r = toks(line)
    if not op.startswith("prop.aio2"):
        return None
    if op == "prop.aio2.harness-step-limit":
        st["skipped"] = st.get("skipped", 0) + 1
        return None
    if op == "prop.aio2.exercised":
        st["sleeps"] = st.get("sleeps", 0) + int(a[0])
        return None if r[0] == "ok" else "harness: full queue / partial write / time-out of the non-blocking sender never exercised"
    if op == "prop.aio2.partial-write":
        return "a refused Send() nevertheless wrote bytes to the link"
    if op == "prop.aio2.runaway":
        return "Send() on a slowly draining queue made no progress (more than 20000 write calls for one message)"
    if op == "prop.aio2.unexpected-send-failure":
        return "Send() with an (effectively) unlimited time-out returned false (stage %s)" % r[0]

    def prefix_rule(mode, auth, tamper, good, sent, got):
        if tamper in ("none", "-1"):
            if got != sent:
                return "untampered stream (%s): delivered %d of %d messages or altered them" % (mode, len(got), len(sent))
            return None
        if not auth:
            return None        # without authentication nothing is promised about tampering
        # with authentication -- in chunked mode as well: the sequence number is under the tag --
        # the delivered sequence is a prefix of the sent one ...
        if got != sent[:len(got)]:
            return "tampered stream (%s, %s): delivered sequence is not a prefix of the sent sequence" % (mode, tamper)
        # ... and every message completely in front of the first modified byte is still delivered
        if len(got) < good:
            return "tampered stream (%s, %s): message before the modification was lost" % (mode, tamper)
        return None

    if op == "prop.aio2.link":
        cls, auth, enc, chunked, tamper, good = a[0], a[1] == "1", a[2] == "1", a[3] == "1", a[4], int(a[5])
        sent, got = ilist(a[6]), ilist(r[0])
        mode = "%s auth=%d enc=%d chunked=%d" % (cls, auth, enc, chunked)
        st.setdefault("modes", set()).add((mode, tamper))
        if tamper == "flip-iv" and auth and enc and not (chunked and cls == "select"):
            # known finding F13 (the IV is not under the tag): the first message is lost, later ones arrive
            if all(x in sent for x in got):
                return None
        return prefix_rule(mode, auth, tamper, good, sent, got)
    if op == "prop.aio2.nbq":
        auth, enc, chunked, cap, sleeps = a[0] == "1", a[1] == "1", a[2] == "1", int(a[3]), int(a[4])
        sent, got = ilist(a[5]), ilist(r[0])
        st["nbq"] = st.get("nbq", 0) + 1
        if got != sent:
            return "non-blocking sender on a queue of %d bytes (auth=%d enc=%d, %d x EAGAIN): Send() returned true for %d values, %d delivered / altered" % (cap, auth, enc, sleeps, len(sent), len(got))
        return None
    if op == "prop.aio2.timeout":
        auth, enc, chunked, cap, stage, partial = a[0] == "1", a[1] == "1", a[2] == "1", int(a[3]), a[4], int(a[5])
        acc, got = ilist(a[6]), ilist(r[0])
        st["timeouts"] = st.get("timeouts", 0) + 1
        if got != acc:
            return ("nb-timeout: a Send() that timed out in stage %s left %d byte(s) of its message on the link; of the %d values accepted (Send() = true) "
                    "%d were delivered%s (auth=%d enc=%d cap=%d)" % (stage, partial, len(acc), len(got), "" if got == acc[:len(got)] else ", one of them a value never sent", auth, enc, cap))
        return None
    if op == "prop.aio2.peers":
        cls, auth, enc, chunked, sched, tl, good = a[0], a[1] == "1", a[2] == "1", a[3] == "1", a[4], int(a[5]), int(a[6])
        st.setdefault("peers", set()).add((cls, sched))
        for i in range(3):
            sent, got = ilist(a[7 + i]), ilist(r[i])
            mode = "%s auth=%d enc=%d chunked=%d %s peer %d" % (cls, auth, enc, chunked, sched, i)
            if i != tl:
                if got != sent:
                    return "peers (%s): delivered %s of this peer's %d messages in order (another link was %s)" % (mode, len(got), len(sent), "tampered with" if tl >= 0 else "untouched too")
            else:
                v = prefix_rule(mode, auth, "flip", good, sent, got)
                if v:
                    return v
        return None
    if op == "prop.aio2.reflect":
        if r[0].startswith("delivered"):
            return "reflect: with authentication on, a party's own message fed back on the link is delivered as the peer's message (%s auth=%s enc=%s chunked=%s)" % (a[0], a[1], a[2], a[3])
        return None
    if op == "prop.aio2.twodir":
        if r[0] == "same":
            return "ctr-reuse: encrypted chunked link: the same value as k-th message in the two directions gives identical wire bytes (same key, nonce and counter)"
        return None
    if op == "prop.aio2.equalmsgs":
        if r[0] == "same":
            return "encrypted link: the same value sent twice produced identical wire bytes (%s)" % " ".join(a)
        return None
    if op == "prop.aio2.arrays":
        def arrs(tok):
            if tok == "none":
                return []
            return [[] if a == "e" else [int(x) for x in a.split(";")] for a in tok.split("|")]
        cls, auth, enc, chunked, sched, npeers, tl, good = a[0], a[1] == "1", a[2] == "1", a[3] == "1", a[4], int(a[5]), int(a[6]), int(a[7])
        st.setdefault("arrays", set()).add((cls, sched, npeers))
        for i in range(npeers):
            sent, got = arrs(a[8 + i]), arrs(r[i])
            mode = "%s auth=%d enc=%d chunked=%d %s peer %d of %d" % (cls, auth, enc, chunked, sched, i, npeers)
            if i != tl:
                if got != sent:
                    return "arrays (%s): sent %d arrays, received %d, or an array altered / partial / mixed (untampered link)" % (mode, len(sent), len(got))
            elif auth:
                if got != sent[:len(got)]:
                    return "arrays (%s): tampered authenticated link: the received arrays are not a prefix of the sent ones (partial or mixed array)" % mode
                if len(got) < good:
                    return "arrays (%s): tampered authenticated link: an array completely in front of the modification was lost" % mode
        return None
    if op == "prop.aio2.arraymix":
        kind, cls, chunked = a[0], a[1], a[4] == "1"
        delim = chunked and cls == "select"
        out = " ".join(r)
        if kind == "recvmix":
            if delim:
                return None      # single values carry no delimiter there: no array can be completed, nothing is delivered wrongly
            if out != "single:1 array:[2,3]" and out != "single:3 array:[1,2]" and "single:-" not in out:
                return "array-recvmix: untampered link, values 1,2,3 sent; an array Receive that timed out kept value 1 in its queue, the single-value Receive then returned 2 and the next array Receive [1,3]: values delivered out of order (%s)" % out
            return None
        if kind == "sendrefused":
            # a[5] = return values, a[6] = arrays whose Send returned true; r[0] = arrays received
            if r[0] != a[6]:
                return "array-sendrefused: vector Sends returned %s, accepted arrays %s, the receiver got %s (untampered link: partial or mixed array)" % (a[5], a[6], r[0])
            return None
        if kind == "othersize":
            st["othersize"] = st.get("othersize", 0) + 1
            return None          # informational: the receiver asked for another size than was sent (application error)
        return None
    if op == "prop.aio2.array":
        sent, got, rets = ilist(a[5]), ilist(r[0]), r[1]
        if got != sent or "0" in rets:
            return "integer arrays (%s auth=%s enc=%s chunked=%s): sent %d values in %s arrays, received %d (return values %s)" % (a[0], a[1], a[2], a[3], len(sent), a[4], len(got), rets)
        return None
    return None
