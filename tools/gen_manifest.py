#!/usr/bin/env python3
"""Write /verif/MANIFEST.json from tools/props.py (keeps the two in sync)."""
import json, os, sys
HERE = os.path.dirname(os.path.abspath(__file__))
sys.path.insert(0, HERE)
import props
VERIF = os.path.dirname(HERE)
ALL = ["C%02d" % i for i in range(1, 21)]
checks = []
for pid in ALL:
    if pid not in props.PROPS or not props.PROPS[pid]["obligations"]:
        continue  # not built, or model/harness exist but no theorem registered yet: no claim
    P = props.PROPS[pid]
    checks.append({
        "property_id": pid,
        "quick_cmd": "python3 tools/check.py %s --tier quick" % pid,
        "thorough_cmd": "python3 tools/check.py %s --tier thorough" % pid,
        "evidence_file": "/verif/evidence/%s.json" % pid,
        "replay_cmd_template": "python3 tools/check.py %s --replay {path}" % pid,
        "engine": "lean4-proof+correspondence",
        "level_claimed": {"category": "proof", "text": P["level_text"], "design_ref": P.get("design_ref", "DESIGN.md §5 " + pid)},
        "level_note": P["level_note"],
        "technique": P.get("technique", "Lean 4 theorems about a hand-written executable model + differential correspondence check of model vs real library"),
    })
na = [{"property_id": pid, "reason": props.NOT_CLAIMED.get(pid, "check not built yet (see DESIGN.md §10 build order); no claim is made")}
      for pid in ALL if pid not in [c["property_id"] for c in checks]]
m = {
    "version": 1,
    "setup_cmd": "python3 tools/setup.py",
    "hooks": {
        "guard": "LIBTMCG_VERIF",
        "enable": "tools/build_repo.py compiles every src/*.cc of /repo's working tree with -DLIBTMCG_VERIF (plus -fsanitize=address,undefined); the guard currently protects no source line — all observation is done by in-binary interposition of libgcrypt entry points in the harness",
        "baseline_off_cmd": "cd /repo && make -k check",
        "source_commits": [],
        "add_only": True,
    },
    "engines": [{"name": "lean4-proof+correspondence", "path": "/verif/tools/check.py",
                 "serves_properties": [c["property_id"] for c in checks],
                 "kind_free_text": "Lean 4.33 + Mathlib theorems over executable models (lean/), tied to /repo by a C++ harness (harness/) that drives the real library under ASan/UBSan and is diffed against the compiled Lean model driver"}],
    "checks": checks,
    "not_applicable": na,
    "notes": "See DESIGN.md. Fixed defects and known findings: known_findings.json.",
}
json.dump(m, open(os.path.join(VERIF, "MANIFEST.json"), "w"), indent=1)
print("MANIFEST.json: %d checks, %d not claimed" % (len(checks), len(na)))
