"""Per-property registry: harness areas, Lean module, obligation theorems, and the
*direct* evaluation of the property on the implementation's own output lines
(independent of the Lean model; used to attach a concrete failing input to a break).

A predicate takes (trace_line, state) and returns None when the property holds on
that line (or the line is not about the property) and a message otherwise.
"""
import math
import re

W = 1 << 64


def toks(line):
    lhs, _, rhs = line.partition(" => ")
    a = lhs.split(" ")
    return a[0], a[1:], rhs.split(" ") if rhs else []


def plist(s):
    s = s.strip()
    assert s[0] == "[" and s[-1] == "]", s
    s = s[1:-1]
    return [] if not s else s.split(",")


def ilist(s):
    return [int(x) for x in plist(s)]


def is_err(rhs):
    return bool(rhs) and (rhs[0].startswith("throw") or rhs[0].startswith("trap") or rhs[0] in ("reject",))


# ---------------------------------------------------------------------------- C07
def fy_ref(n, draws):
    pi = list(range(n))
    for i, d in enumerate(draws):
        j = i + d
        pi[i], pi[j] = pi[j], pi[i]
    return pi


def limit(m):
    return (W // m) * m


def pred_rng(line, st):
    op, a, r = toks(line)
    if op == "rng.mod":
        m = int(a[0]); ws = ilist(a[1])
        if m < 2:
            return None if r and r[0] == "throw:invalid_argument" else "modulus %d must throw" % m
        if is_err(r):
            return "sampler failed for modulus %d" % m
        v, k = int(r[0]), int(r[1])
        L = limit(m)
        if not (0 <= v < m):
            return "value %d outside [0,%d)" % (v, m)
        if k != len(ws) or not ws:
            return "consumed %d of %d words" % (k, len(ws))
        if any(u < L for u in ws[:-1]):
            return "an acceptable word (< L) was rejected: bias"
        if ws[-1] >= L:
            return "word %d >= limit %d accepted: modulo bias" % (ws[-1], L)
        if v != ws[-1] % m:
            return "value is not the accepted word mod m"
        return None
    if op == "rng.fy":
        n = int(a[0]); ws = ilist(a[1])
        if is_err(r):
            return "permutation generator failed"
        pi = ilist(r[0])
        if sorted(pi) != list(range(n)):
            return "not a permutation of 0..n-1"
        # draws: i-th accepted word reduced mod n-i (words may include rejected ones)
        draws = []; i = 0
        for u in ws:
            m = n - i
            if u < limit(m):
                draws.append(u % m); i += 1
        if len(draws) != max(n - 1, 0):
            return "number of accepted draws %d != n-1" % len(draws)
        if pi != fy_ref(n, draws):
            return "arrangement is not the Fisher-Yates image of the draws (distribution changed)"
        if n <= 6 and len(ws) == n - 1 and all(ws[i] < n - i for i in range(n - 1)):
            st.setdefault("fy", {}).setdefault(n, {})[tuple(ws)] = tuple(pi)
        return None
    if op == "rng.rot":
        n = int(a[0]); ws = ilist(a[1])
        if n < 2:
            return None if is_err(r) else None
        if is_err(r):
            return "rotation generator failed"
        pi = ilist(r[0]); off = int(r[1])
        if len(pi) != n or not (0 <= off < n):
            return "bad size/offset"
        if any(pi[(off + i) % n] != i for i in range(n)):
            return "not a cyclic shift by the reported offset"
        acc = [u for u in ws if u < limit(n)]
        if len(acc) != 1 or (n - acc[0] % n) % n != off:
            return "offset is not the image of the accepted word"
        return None
    if op == "rng.randomm":
        m = int(a[0]); r0 = r[0]
        if is_err(r):
            return "randomm failed"
        v = int(r0)
        if not (0 <= v < abs(m)):
            return "residue %d outside [0,%d)" % (v, m)
        if a[1] not in ("multi",):
            b = bytes.fromhex(a[1]) if a[1] != "-" else b""
            if len(b) * 8 < m.bit_length() + 64:
                return "only %d random bytes for a %d-bit modulus: bias not negligible" % (len(b), m.bit_length())
            if int.from_bytes(b, "big") % m != v:
                return "residue is not raw value mod m"
        return None
    if op == "rng.randomb":
        size = int(a[0])
        if size == 0:
            return None if is_err(r) else "size 0 must throw"
        if is_err(r):
            return "randomb failed"
        v = int(r[0])
        if not (0 <= v < (1 << size)):
            return "value outside [0,2^%d)" % size
        return None
    return None


def final_rng(st):
    for n, tab in st.get("fy", {}).items():
        total = math.factorial(n)
        if len(tab) == total:  # full enumeration of the draw vectors happened
            if len(set(tab.values())) != total:
                return "Fisher-Yates map draw-vectors -> arrangements is not a bijection for n=%d" % n
    return None


PROPS = {}
NOT_CLAIMED = {}   # property id -> reason, for properties without a check

PROPS["C07"] = dict(
    module="TmcgProps.C07",
    areas=[("rng", {"quick": 1500, "thorough": 60000}, [])],
    obligations=[
        ("Tmcg.C07.nomodbias_accept_set", "full"),
        ("Tmcg.C07.nomodbias_uniform", "full"),
        ("Tmcg.C07.randomMod_range", "full"),
        ("Tmcg.C07.randomMod_throws", "full"),
    ],
    predicate=pred_rng,
    final=final_rng,
    level_text="Counting theorems in Lean 4 about the executable model of the bounded sampler (64-bit wrap-around included), "
               "Fisher-Yates and rotation: exact uniformity given uniform raw words, range bounds for every input; "
               "the model is tied to the code by serving chosen raw words to the real functions and diffing results and word consumption.",
    level_note="Trusted: Lean kernel, propext/Classical.choice/Quot.sound, the harness and its libgcrypt interposer, uniformity of libgcrypt's bytes; "
               "agreement model/code is established on the generated cases only.",
    assumptions=["bytes returned by libgcrypt are uniform and independent (served by the harness in the correspondence run)",
                 "unsigned long is 64 bit (ULONG_BITS generated from the compiler and checked)"],
    trusted=["model of `unsigned long` arithmetic modulo 2^64 (Tmcg/Model/Rng.lean)"],
)
