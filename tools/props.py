"""Per-property registry: harness areas, Lean module, obligation theorems, and the
*direct* evaluation of the property on the implementation's own output lines
(independent of the Lean model; used to attach a concrete failing input to a break).

A predicate takes (trace_line, state) and returns None when the property holds on
that line (or the line is not about the property) and a message otherwise.
"""
import math
import sys
if hasattr(sys, "set_int_max_str_digits"):
    sys.set_int_max_str_digits(0)
import re

W = 1 << 64


def toks(line):
    lhs, _, rhs = line.partition(" => ")
    a = lhs.split(" ")
    return a[0], a[1:], rhs.split(" ") if rhs else []


def plist(s):
    s = s.strip()
    assert s[0] == "[" and s[-1] == "]", s
    s = s[1:-1]
    return [] if not s else s.split(",")


def ilist(s):
    return [int(x) for x in plist(s)]


def is_err(rhs):
    return bool(rhs) and (rhs[0].startswith("throw") or rhs[0].startswith("trap") or rhs[0] in ("reject",))


# ---------------------------------------------------------------------------- C07
def fy_ref(n, draws):
    pi = list(range(n))
    for i, d in enumerate(draws):
        j = i + d
        pi[i], pi[j] = pi[j], pi[i]
    return pi


def limit(m):
    return (W // m) * m


def pred_rng(line, st):
    op, a, r = toks(line)
    if op == "rng.mod":
        m = int(a[0]); ws = ilist(a[1])
        if m < 2:
            return None if r and r[0] == "throw:invalid_argument" else "modulus %d must throw" % m
        if is_err(r):
            return "sampler failed for modulus %d" % m
        v, k = int(r[0]), int(r[1])
        L = limit(m)
        if not (0 <= v < m):
            return "value %d outside [0,%d)" % (v, m)
        if k != len(ws) or not ws:
            return "consumed %d of %d words" % (k, len(ws))
        if any(u < L for u in ws[:-1]):
            return "an acceptable word (< L) was rejected: bias"
        if ws[-1] >= L:
            return "word %d >= limit %d accepted: modulo bias" % (ws[-1], L)
        if v != ws[-1] % m:
            return "value is not the accepted word mod m"
        return None
    if op == "rng.fy":
        n = int(a[0]); ws = ilist(a[1])
        if is_err(r):
            return "permutation generator failed"
        pi = ilist(r[0])
        if sorted(pi) != list(range(n)):
            return "not a permutation of 0..n-1"
        # draws: i-th accepted word reduced mod n-i (words may include rejected ones)
        draws = []; i = 0
        for u in ws:
            m = n - i
            if u < limit(m):
                draws.append(u % m); i += 1
        if len(draws) != max(n - 1, 0):
            return "number of accepted draws %d != n-1" % len(draws)
        if pi != fy_ref(n, draws):
            return "arrangement is not the Fisher-Yates image of the draws (distribution changed)"
        if n <= 6 and len(ws) == n - 1 and all(ws[i] < n - i for i in range(n - 1)):
            st.setdefault("fy", {}).setdefault(n, {})[tuple(ws)] = tuple(pi)
        return None
    if op == "rng.rot":
        n = int(a[0]); ws = ilist(a[1])
        if n < 2:
            return None if is_err(r) else None
        if is_err(r):
            return "rotation generator failed"
        pi = ilist(r[0]); off = int(r[1])
        if len(pi) != n or not (0 <= off < n):
            return "bad size/offset"
        if any(pi[(off + i) % n] != i for i in range(n)):
            return "not a cyclic shift by the reported offset"
        acc = [u for u in ws if u < limit(n)]
        if len(acc) != 1 or (n - acc[0] % n) % n != off:
            return "offset is not the image of the accepted word"
        return None
    if op == "rng.randomm":
        m = int(a[0]); r0 = r[0]
        if is_err(r):
            return "randomm failed"
        v = int(r0)
        if not (0 <= v < abs(m)):
            return "residue %d outside [0,%d)" % (v, m)
        if a[1] not in ("multi",):
            b = bytes.fromhex(a[1]) if a[1] != "-" else b""
            if len(b) * 8 < m.bit_length() + 64:
                return "only %d random bytes for a %d-bit modulus: bias not negligible" % (len(b), m.bit_length())
            if int.from_bytes(b, "big") % m != v:
                return "residue is not raw value mod m"
        return None
    if op == "rng.randomb":
        size = int(a[0])
        if size == 0:
            return None if is_err(r) else "size 0 must throw"
        if is_err(r):
            return "randomb failed"
        v = int(r[0])
        if not (0 <= v < (1 << size)):
            return "value outside [0,2^%d)" % size
        return None
    return None


def final_rng(st):
    for n, tab in st.get("fy", {}).items():
        total = math.factorial(n)
        if len(tab) == total:  # full enumeration of the draw vectors happened
            if len(set(tab.values())) != total:
                return "Fisher-Yates map draw-vectors -> arrangements is not a bijection for n=%d" % n
    return None


PROPS = {}
NOT_CLAIMED = {}   # property id -> reason, for properties without a registered check (none at present)

PROPS["C07"] = dict(
    module="TmcgProps.C07",
    areas=[("rng", {"quick": 1500, "thorough": 40000}, [], "san")],
    obligations=[
        ("Tmcg.C07.nomodbias_accept_set", "full"),
        ("Tmcg.C07.nomodbias_uniform", "full"),
        ("Tmcg.C07.randomMod_range", "full"),
        ("Tmcg.C07.randomMod_throws", "full"),
        ("Tmcg.C07.fisherYates_bijective", "full"),
        ("Tmcg.C07.rotation_uniform", "full"),
        ("Tmcg.C07.randomm_range_and_bias", "full"),
        ("Tmcg.C07.randomb_in_range", "full"),
    ],
    predicate=pred_rng,
    final=final_rng,
    level_text="Counting theorems in Lean 4 about the executable model of the bounded sampler (64-bit wrap-around included), "
               "Fisher-Yates and rotation: exact uniformity given uniform raw words, range bounds for every input; "
               "the model is tied to the code by serving chosen raw words to the real functions and diffing results and word consumption.",
    level_note="Trusted: Lean kernel, propext/Classical.choice/Quot.sound, the harness and its libgcrypt interposer, uniformity of libgcrypt's bytes; "
               "agreement model/code is established on the generated cases only.",
    assumptions=["bytes returned by libgcrypt are uniform and independent (served by the harness in the correspondence run)",
                 "unsigned long is 64 bit (ULONG_BITS generated from the compiler and checked)"],
    trusted=["model of `unsigned long` arithmetic modulo 2^64 (Tmcg/Model/Rng.lean)"],
)


# ---------------------------------------------------------------------------- helpers
def inv_mod(a, p):
    try:
        return pow(a, -1, p)
    except ValueError:
        return None


def tag_of(a):
    return a[-1][4:] if a and a[-1].startswith("tag:") else ""


# ---------------------------------------------------------------------------- C01
def pred_c01(line, st):
    op, a, r = toks(line)
    if op == "vtmf.open":
        p, q, g, w, T, priv = int(a[0]), int(a[1]), int(a[2]), int(a[3]), int(a[4]), int(a[5])
        xs, rs, present, opener = ilist(a[6]), ilist(a[7]), ilist(a[9]), int(a[10])
        if is_err(r) or r[0] in ("share-refused", "key-refused"):
            return "opening failed: %s" % r[0]
        typ = int(r[4])
        k = len(xs)
        allp = sorted(present) == [j for j in range(k) if j != opener]
        if allp:
            if typ != T:
                return "all %d players contributed but the card opens to %d, created with %d" % (k, typ, T)
            return None
        # missing share: sentinel unless the exponent T + R*X hits the message space
        R = sum(rs)
        X = sum(xs[j] for j in range(k) if j != opener and j not in present)
        e = (T + R * X) % q
        expect = e if e < (1 << w) else (1 << w)
        # (g^t injective on t<q; first match of the linear search is e itself)
        if typ != expect:
            return "missing shares: expected %d (sentinel %d), got %d" % (expect, 1 << w, typ)
        return None
    if op == "tmcg.open":
        T = int(a[1])
        if is_err(r):
            return "opening failed"
        if int(r[-1]) != T:
            return "QR-encoded card created with type %d opens to %s" % (T, r[-1])
        return None
    if op == "tmcg.secret":
        return None if r == ["1"] else "card secret's b-columns do not XOR to zero"
    return None


# ---------------------------------------------------------------------------- C02
def pred_c02(line, st):
    op, a, r = toks(line)
    if op in ("rng.fy", "rng.rot"):
        return pred_rng(line, st)
    if op == "stack.types":
        types, idx, out = ilist(a[0]), ilist(a[1]), ilist(r[0])
        if len(out) != len(types):
            return "mixed stack has another size"
        if out != [types[j] for j in idx]:
            return "card i of the mixed stack does not open to the type of input card idx[i]"
        if sorted(idx) == list(range(len(idx))) and sorted(out) != sorted(types):
            return "multiset of types not preserved"
        return None
    if op == "stack.mixglue-equal":
        return None if r == ["1"] else "mixing twice differs from mixing with the glued secret"
    if op == "stack.idxok":
        idx = ilist(a[0]); n = len(idx)
        want = 1 if (0 < n <= 512 and sorted(idx) == list(range(n))) else 0
        if int(r[0]) != want:
            return "importer %s an index component that is %sa bijection" % ("accepted" if int(r[0]) else "refused", "" if want else "not ")
        return None
    return None


# ---------------------------------------------------------------------------- C08
def hexint(z):
    return ("-" if z < 0 else "") + format(abs(z), "x")


def shash_query(args):
    return "".join(hexint(a) + "|" for a in args)


def oracle_of(logtok):
    ans = {}
    for e in plist(logtok):
        hq, a = e.split(":")
        ans[bytes.fromhex(hq).decode("latin1") if hq != "-" else ""] = int(a)
    return ans


def nizk_should_accept(p, q, g, key, c, r, H, qr):
    """the key-share verification equation, evaluated independently; None = oracle answer missing"""
    if not (0 < key < p):
        return False
    if qr:
        if pow(key, q, p) != 1:   # quadratic residues = subgroup of order q for p = 2q+1
            return False
    elif pow(key, q, p) != 1:
        return False
    if max(1, abs(c).bit_length()) > 256 or abs(r) >= q:
        return False
    t = pow(g, r, p) * pow(key, c, p) % p
    qstr = shash_query([p, q, g, key, t])
    if qstr not in H:
        return None
    return H[qstr] == c


def pred_c08(line, st):
    op, a, r = toks(line)
    if op != "vtmf.key":
        return None
    qr = a[0] == "qr"
    p, q, g, x0 = int(a[1]), int(a[2]), int(a[3]), int(a[4])
    ops = plist(a[5]); H = oracle_of(a[6])
    if is_err(r):
        return "key history failed"
    h, n, rets = int(r[0]), int(r[1]), ilist(r[2])
    eh = pow(g, x0, p)
    stored = {}
    for o, ret in zip(ops, rets):
        f = o.split(":")
        if f[0] == "u":
            key, c, rr = int(f[1]), int(f[2]), int(f[3])
            want = nizk_should_accept(p, q, g, key, c, rr, H, qr)
            if want is None:
                # the verifier never asked the oracle about the right commitment: only fine for a refusal
                if ret == 1:
                    return "contribution accepted without the hash of its recomputed commitment being queried"
                want = False
            if want and ret != 1:
                return "valid contribution refused"
            if not want and ret == 1:
                return "contribution with a wrong or forged proof of knowledge accepted (key %d...)" % (key % 10 ** 8)
            if ret == 1:
                eh = eh * key % p
                stored[key] = key
        elif f[0] == "m":
            if ret != 0:
                return "contribution without proof accepted"
        elif f[0] == "r":
            key = int(f[1])
            if key in stored:
                if ret != 1:
                    return "removal of a stored key refused"
                eh = eh * inv_mod(key, p) % p
                del stored[key]
            elif ret != 0:
                return "removal of an unknown key returned true"
    if h != eh:
        return "common key is not own key times the product of accepted, not removed keys"
    if n != len(stored):
        return "number of stored keys %d != %d" % (n, len(stored))
    return None


# ---------------------------------------------------------------------------- C09
def bitlen(x):
    return max(1, abs(x).bit_length())


def pred_c09(line, st):
    op, a, r = toks(line)
    if op == "arith.spowm":
        m, x, p = int(a[0]), int(a[1]), int(a[2])
        if p % 2 == 0:
            return None if r[0] == "throw:invalid_argument" else "even modulus must be refused"
        if p > 1 and math.gcd(m, p) == 1:
            if is_err(r):
                return "spowm refused a base coprime to the modulus (exponent %d)" % x
            if int(r[0]) != pow(m, x, p):
                return "spowm differs from plain exponentiation"
        elif not is_err(r) and p > 1 and x >= 0 and int(r[0]) != pow(m, x, p):
            return "spowm returned a wrong residue"
        return None
    if op == "arith.fpowm":
        kind, base, t, m, x, p = a[0], int(a[1]), int(a[2]), int(a[3]), int(a[4]), int(a[5])
        if p == 0:
            return None
        if m != base:
            return None if r[0] == "throw:invalid_argument" else "wrong base must be refused"
        if bitlen(x) > 2048:
            return None if r[0] == "throw:invalid_argument" else "exponent beyond the limit must be refused"
        ts = max(1, min(t, 2048))
        if bitlen(x) <= ts and p > 1 and (math.gcd(base, p) == 1 or (x >= 0 and kind != "fspowm")):
            if is_err(r):
                return "%s refused a legal input" % kind
            if int(r[0]) != pow(base, x, p):
                return "%s differs from plain exponentiation" % kind
        return None
    if op == "arith.powm":
        b, e, p = int(a[0]), int(a[1]), int(a[2])
        if not is_err(r) and int(r[0]) != pow(b, e, abs(p)):
            return "mpz_powm model check failed"
        return None
    return None


# ---------------------------------------------------------------------------- C03 / C04 / C05
VERIFY_OPS = ("zk.nizk.verify", "zk.cp.verify", "zk.mask.verify", "zk.remask.verify", "zk.dec.verify",
              "zk.or.verify", "zk.key.final", "zk.se.verify", "zk.keypc.verify") + tuple(
    "args.%s.verify.%s" % (a, m) for a in ("vrhe", "rot", "groth", "tmcg.hoogh", "tmcg.groth") for m in ("interactive", "publiccoin", "noninteractive"))


def se_bits(a):
    # rounds token: [commit:bit:hex,...] is the 8th argument of zk.se.verify
    return [int(e.split(":")[1]) for e in plist(a[8])]


def pred_c03(line, st):
    op, a, r = toks(line)
    if op in VERIFY_OPS and tag_of(a) == "honest":
        if not r or r[0] != "1":
            return "honest proof rejected (%s)" % (r[0] if r else "?")
    if op.startswith("args.") and ".prove." in op and tag_of(a) == "honest":
        if not r or r[0] != "1":
            return "honest prover of the %s argument gave up (%s)" % (op.split(".")[1], r[0] if r else "?")
    if op == "prop.rabin" and a and a[0] == "generate":
        st["c03_rabin_keys"] = st.get("c03_rabin_keys", 0) + 1
        if not r or r[0] != "check=1":
            return "key validation refused a key (with its proof) that the library generated itself (%s)" % " ".join(a[1:4])
    if op == "zk.keypc.prove" and tag_of(a) == "honest":
        if not r or r[0] != "1":
            return "honest public-coin prover gave up (%s) although the verifier followed the protocol" % (r[0] if r else "?")
    if op == "zk.key.respond" and tag_of(a) == "honest":
        q, c = int(a[1]), int(a[5])
        if abs(c) < q and (not r or r[0] == "refuse"):
            return "honest prover refused a legal challenge"
    return None


def pred_c04(line, st):
    op, a, r = toks(line)
    t = tag_of(a)
    if op not in VERIFY_OPS or not t.startswith("cheat:"):
        return None
    acc = bool(r) and r[0] == "1"
    if op == "zk.se.verify":
        bits = se_bits(a)
        base = t[6:].split("+")[0]
        if base in ("duplicated-card", "substituted-card"):
            must_reject = any(b == 1 for b in bits) or "+mut" in t and False
        elif base == "noncyclic-as-rotation":
            must_reject = any(b == 0 for b in bits)
        else:
            must_reject = True
        if "+mut" in t:
            return None
        if must_reject and acc:
            return "false statement (%s) accepted although a round asked for the side the prover cannot answer" % base
        if not must_reject and not acc:
            st["lucky"] = st.get("lucky", 0) + 1
        return None
    if acc:
        return "proof of a false statement accepted (%s)" % t
    return None


# mutations that produce an *equivalent* representation (same group element modulo p that is
# neither transmitted nor hashed; same residue modulo the group order for an exponent that the
# verifier only uses modulo q): the property does not demand a rejection there
EQUIV_PLUSP = {("zk.mask.verify", "m"), ("zk.remask.verify", "c1"), ("zk.remask.verify", "c2"),
               ("zk.key.final", "key")}
EQUIV_PLUSQ = {("zk.or.verify", "c1"), ("zk.or.verify", "c2")}


def pred_c05(line, st):
    op, a, r = toks(line)
    t = tag_of(a)
    if op == "prop.args.malformed":
        # a stack component that is not a group member, transcript re-proved for exactly that statement (or forged):
        # "values that the protocol requires to lie in the group are refused"
        if "1" in r:
            return "malformed statement accepted (%s)" % " ".join(a)
        return None
    if op not in VERIFY_OPS:
        return None
    acc = bool(r) and r[0] == "1"
    if t.startswith("equiv:"):
        if not acc:
            return "equivalent representation rejected (%s)" % t
        return None
    if not t.startswith("mut:"):
        return None
    _, field, how = (t.split(":") + ["", ""])[:3]
    if how == "plusp" and (op, field) in EQUIV_PLUSP:
        return None     # same group element modulo p, never transmitted: equivalent representative
    if how == "plusq" and (op, field) in EQUIV_PLUSQ:
        return None     # same residue modulo the group order
    if op == "zk.se.verify" and field == "s":
        if not any(b == 0 for b in se_bits(a)):
            return None  # the original stack is only looked at in rounds with challenge 0
    if op == "zk.se.verify" and field == "s2":
        if not any(b == 1 for b in se_bits(a)):
            return None  # the shuffled stack is only mixed in rounds with challenge 1 (it is still membership-checked:
                         # a mutated card that stays a group element passes when all challenge bits are 0, the 2^-kappa event of the protocol)
    if acc:
        return "verification still succeeds after mutation %s" % t
    return None


ZK_AREAS = [("zk", {"quick": 25, "thorough": 80}, [], "fast"), ("args", {"quick": 11, "thorough": 11}, [], "fast")]
ZK_TRUST = ["hash oracle replay: the model recomputes every Fiat-Shamir query string and takes the answer from the run",
            "the zk area runs the non-sanitized build (the library allocates 640 MB line buffers per stack read, which ASan makes very slow)"]
LEVEL_NOTE = ("Trusted: Lean kernel, propext/Classical.choice/Quot.sound, the C++ harness and its libgcrypt interposer, the compiled Lean driver; "
              "agreement model/code is established on the generated cases only (distribution in the evidence file).")

PROPS["C01"] = dict(
    module="TmcgProps.C01",
    areas=[("vtmf", {"quick": 150, "thorough": 120}, [], "san"), ("tmcg", {"quick": 200, "thorough": 500}, [], "san")],
    obligations=[("Tmcg.C01.vtmf_open_correct", "full"), ("Tmcg.C01.vtmf_open_missing_share", "full"),
                 ("Tmcg.C01.vtmf_players_spec", "full"), ("Tmcg.C01.remask_preserves_plain", "full"),
                 ("Tmcg.C01.tmcg_open_correct", "full"), ("Tmcg.C01.tmcg_secret_columns", "full"),
                 ("Tmcg.C01.jacobi_is_jacobiSym", "full")],
    predicate=pred_c01,
    level_text="Theorem in Lean 4: in the executable model of the VTMF (all exponentiation variants included) a card of type T masked by any chain opens to T with all shares, "
               "and to the sentinel (up to an explicit exceptional set) with shares missing - for every valid group, player count, secrets, chain. "
               "Model tied to the code by running whole games on the real classes and diffing every intermediate value.",
    level_note=LEVEL_NOTE + " Primality of p, q is a hypothesis (C06). The verification of the opening proofs is C03-C05.",
    assumptions=["p, q prime and g of order q (ValidGroup); decided for real parameter sets by C06 + probable-prime test"],
)
PROPS["C02"] = dict(
    module="TmcgProps.C02",
    areas=[("shuffle", {"quick": 150, "thorough": 300}, [], "san")],
    obligations=[("Tmcg.C02.mix_opens_to_source", "full"), ("Tmcg.C02.mix_preserves_multiset", "full"),
                 ("Tmcg.C02.nonbijective_drops", "full"), ("Tmcg.C02.fresh_secret_is_bijection", "full"),
                 ("Tmcg.C02.fresh_rotation_is_shift", "full"), ("Tmcg.C02.import_accepts_iff_bijection", "full"),
                 ("Tmcg.C02.mix_glue", "full"), ("Tmcg.C02.glue_is_bijection", "full")],
    predicate=pred_c02,
    level_text="Theorems in Lean 4 about the executable model of TMCG_MixStack / GlueStackSecret / CreateStackSecret / StackSecret::import: "
               "for every size and secret the i-th mixed card opens to the designated source type, bijective secrets preserve the multiset, "
               "generated secrets are bijections (rotations are shifts by the reported offset), the importer accepts exactly bijections, mix(glue) = mix∘mix. "
               "Correspondence: real functions vs model on generated stacks, all n^n index vectors for n<=4, served raw words.",
    level_note=LEVEL_NOTE,
    assumptions=["masking preserves the card type (proved for the discrete-log encoding: Tmcg.C01.remask_preserves_plain)"],
)
PROPS["C03"] = dict(
    module="TmcgProps.C03",
    areas=ZK_AREAS + [("rabin", {"quick": 4, "thorough": 8}, ["--no-sqrt"], "san")],
    obligations=[("Tmcg.C03.vrhe_complete_noninteractive", "full"), ("Tmcg.C03.vrhe_complete_interactive", "full"), ("Tmcg.C03.vrhe_complete_publiccoin", "full"),
                 ("Tmcg.C03.groth_complete_noninteractive", "full"), ("Tmcg.C03.groth_complete_interactive", "full"), ("Tmcg.C03.groth_complete_publiccoin", "full"),
                 ("Tmcg.C03.stackeq_complete", "full"), ("Tmcg.C03.mix_glue", "full"),
                 ("Tmcg.C03.nizk_complete", "full"), ("Tmcg.C03.cp_complete", "full"), ("Tmcg.C03.mask_complete", "full"),
                 ("Tmcg.C03.remask_complete", "full"), ("Tmcg.C03.decrypt_complete", "full"),
                 ("Tmcg.C03.or_first_complete", "full"), ("Tmcg.C03.or_second_complete", "full"),
                 ("Tmcg.C03.key_interactive_complete", "full"),
                 ("Tmcg.C03.rabin_response_ok1", "full"), ("Tmcg.C03.rabin_response_ok2", "full"), ("Tmcg.C03.rabin_response_ok3", "full"),
                 ("Tmcg.C03.rabin_nizk_complete", "full"), ("Tmcg.C03.rabin_check_generate", "full")],
    predicate=pred_c03,
    level_text="Completeness theorems in Lean 4 for the VTMF's proofs of knowledge (key NIZK, Chaum-Pedersen in both modes, masking, re-masking, decryption, OR, interactive key proof) and for the cut-and-choose proof of stack equality (shuffle and rotation, every size 1..TMCG_MAX_CARDS, every number of rounds and challenge bits, through the text codec): "
               "for every valid group, witness, coin and hash the model verifier accepts the model prover's transcript. Prover and verifier of the real library are each compared "
               "separately with the model (same coins, same oracle answers, byte-identical hash queries). Rotation argument (Hoogh et al. VRHE with PUBROTZK) and Groth's shuffle argument (VSSHE with SKC and Pedersen commitments): completeness in all three modes for every n >= 2, every rotation/permutation and all coins "
               "(Groth: under the three conditions on the verifier's coins under which the library itself refuses an honest proof), real prover -> real verifier and each vs the model for n = 2..9, 16, 32, 52. "
               "Rabin keys: the prover of the three NIZK stages inside key generation and the verifier in key validation are modelled; every response passes its stage (Euler / the four candidates +-x, +-2x / x or xy), the text is parsed back round by round and every generated key passes key validation (area rabin: every key the harness generates, with and without proof, is reproduced by the model and validated by the real check).",
    level_note=LEVEL_NOTE,
    trusted=ZK_TRUST,
    assumptions=["Rabin key NIZK: mpz_probab_prime_p sound on the cofactor q; KeyIdOk (self-signature value has at least 8 base-62 digits)",
                 "Groth's argument: completeness under the three coin conditions under which the library itself refuses an honest proof"],
)
PROPS["C08"] = dict(
    module="TmcgProps.C08",
    areas=[("vtmf", {"quick": 150, "thorough": 120}, [], "san")],
    obligations=[("Tmcg.C08.key_refines_product", "full"), ("Tmcg.C08.all_orders_same_key", "full"),
                 ("Tmcg.C08.all_players_agree", "full"), ("Tmcg.C08.refused_is_noop", "full"),
                 ("Tmcg.C08.outside_group_refused", "full"), ("Tmcg.C08.remove_restores", "full"),
                 ("Tmcg.C08.remove_unknown", "full"), ("Tmcg.C08.duplicate_key_behaviour", "full")],
    predicate=pred_c08,
    level_text="Refinement theorem in Lean 4: for every history of contributions, refusals and removals the common key equals own key times the product of accepted, not removed keys; "
               "order independence, agreement of all players, refusal = no-op, removal restores. Correspondence: random histories (valid, corrupted, duplicate, removal) on the real class.",
    level_note=LEVEL_NOTE,
    assumptions=["fingerprints of distinct keys differ (hash injective on the keys of a history); the duplicate-key corner is stated separately"],
)
from pred_c09c import pred_c09c  # noqa: E402  (prime generators: independent Miller-Rabin and the relations)
from pred_c09b import pred_c09b  # noqa: E402  (interpolation, generated primes, back-end conversion, big-integer wrapper)


def pred_c09_all(line, st):
    """exponentiation lines (pred_c09), the square-root summaries of the rabin area, and the arith2 area"""
    if line.startswith("prop.rabin sqrt"):
        return pred_c10(line, st)
    if line.startswith(("arith2.", "prop.arith2.")):
        return pred_c09b(line, st)
    if line.startswith(("primegen.", "prop.primegen ")):
        st["primegen"] = st.get("primegen", 0) + 1
        return pred_c09c(line, st)
    return pred_c09(line, st)


PROPS["C09"] = dict(
    module="TmcgProps.C09",
    areas=[("arith", {"quick": 600, "thorough": 10000}, [], "san"),
           ("rabin", {"quick": 1, "thorough": 1}, ["--only-sqrt", "--sqrt-primes", "150"], "san"),
           ("arith2", {"quick": 200, "thorough": 150}, [], "san"),
           ("primegen", {"quick": 24, "thorough": 96}, [], "san")],
    obligations=[("Tmcg.C09.powm_is_power", "full"), ("Tmcg.C09.powm_neg_is_inverse_power", "full"),
                 ("Tmcg.C09.spowm_eq_powm", "full"), ("Tmcg.C09.spowm_refusals", "full"),
                 ("Tmcg.C09.fpowm_eq_powm", "full"), ("Tmcg.C09.fspowm_eq_powm", "full"),
                 ("Tmcg.C09.fpowm_ui_eq_powm", "full"), ("Tmcg.C09.fpowm_wrong_base_refused", "full"),
                 ("Tmcg.C09.fpowm_exponent_too_large", "full"), ("Tmcg.C09.fpowm_beyond_table_is_zero", "full"),
                 ("Tmcg.C09.baseblind_eq_powm", "full"),
                 ("Tmcg.C09.sqrtmp_sq_all", "full"), ("Tmcg.C09.sqrtmnR_sq", "full"), ("Tmcg.C09.sqrtmnFastAll_sq", "full")]
                + [("Tmcg.C09." + n, "full") for n in ['interp_reproduces_points', 'interp_collision_refused', 'interp_bad_arguments', 'primeRelOk_safe', 'primeRelOk_safe2g', 'primeRelOk_blum', 'primeRelOk_schnorr', 'primeRelOk_prefix', 'primeRelOk_ordinary', 'two_generates', 'mpiRoundtrip_lossless', 'mpiRoundtrip_total', 'bigint_backend_independent', 'bigint_secure_eq_plain', 'secure_refuses_iff', 'bigintSeq_backend_independent', 'div_mod_nonneg',
                                                    'safe_prime', 'sprime_rel', 'sprime2g_rel', 'sprime3mod4_rel', 'sprimeNaive_rel', 'sprimeNoninc_rel', 'lprime_rel', 'lprimePrefix_rel',
                                                    'oprime_rel', 'oprimeNoninc_rel', 'searchInc_none_iff', 'searchNaive_none_iff', 'searchOrd_none_iff', 'searchInc_mono']],
    predicate=pred_c09_all,
    level_text="Theorems in Lean 4: every modular-exponentiation variant of the model (constant-time with dummy operations, table-based, always-multiply, unsigned, base-blinded) equals plain "
               "modular exponentiation for every base coprime to the modulus and every exponent sign; refusals are exceptions, never wrong values. Model vs real functions: exhaustive small moduli + random big cases. "
               "Square roots: all three branches modulo a prime (for every non-residue draw), CRT combination modulo distinct odd primes and the fast variant for Blum moduli square back to their argument (theorems), "
               "exhaustive over all primes below 150 with all residues and all products of two primes below 60 in every run. "
               "Interpolation: the model of tmcg_interpolate_polynom reproduces the points for pairwise distinct abscissae modulo a prime and refuses colliding ones (theorems). "
               "Generated primes: every generator function is called for several sizes and its output judged by an independent Miller-Rabin and the defining relations (predicate), the relation checks themselves are model-vs-code. The random searches of all eleven generators (sprime, smprime, sprime2g, sprime3mod4, the naive and non-incremental variants, lprime, lprime_prefix, oprime, oprime_noninc) are modelled as functions of the coin stream and the primality oracle (area primegen: every generated prime reproduced from the logged coins and oracle answers): whenever a generator returns, its output satisfies its relation, the oracle only having to be right about the returned numbers (for the safe-prime tests primality of p = 2q+1 is proved from the Lucas-type step); a search ends exhausted only when every candidate within the fuel failed. "
               "mpz<->mpi conversion lossless on the supported range; the big-integer wrapper: one Int model for both back ends, 40 operators and operation sequences on both back ends against it.",
    level_note=LEVEL_NOTE + " GMP's mpz_powm/mpz_invert/mpz_jacobi are modelled and the model layer itself is compared with GMP.",
    assumptions=["generated primes: mpz_probab_prime_p is an oracle; the relation theorems need it to be right about the returned numbers only; the coin-consuming redraw loops have specification theorems but no exhaustion characterisation",
                 "the random members of TMCG_Bigint are not covered"],
)

PROPS["C04"] = dict(
    module="TmcgProps.C04",
    areas=ZK_AREAS,
    obligations=[("Tmcg.C04.stackeq_round_extract", "full"), ("Tmcg.C04.stackeq_two_challenges", "full"),
                 ("Tmcg.C04.stackeq_soundness_bound", "full"), ("Tmcg.C04.stackeq_soundness_prob", "full"),
                 ("Tmcg.C04.cp_special_sound", "full"), ("Tmcg.C04.schnorr_special_sound", "full"),
                 ("Tmcg.C04.cp_wrong_witness", "full"), ("Tmcg.C04.cpVerify_accept_iff", "full"),
                 ("Tmcg.C04.nizkVerify_accept_iff", "full")] +
                # round 2: the shuffle of known content, Groth's shuffle argument and the rotation argument - the HONEST PROVER
                # ALGORITHM with a witness that does not fit (what the property text describes), as counting statements over the
                # verifier's challenges (TmcgProps/C04Args.lean, builder-sound)
                [("Tmcg.C04Args." + n, "full") for n in (
                    "perm_poly_bound", "linear_form_bound", "mult_form_bound",
                    "skc_sound_interactive", "skc_sound_noninteractive", "skc_sound_publiccoin", "skc_root_count", "skc_count_interactive",
                    "skc_wrong_commitment", "range_inj_mod",
                    "groth_sound_interactive", "groth_sound_noninteractive", "groth_sound_publiccoin", "groth_count_substituted",
                    "groth_lam_count", "groth_count_dropped", "groth_count_dropped_joint", "grothVerifyStack_eq",
                    "vrhe_sound_interactive", "vrhe_sound_noninteractive", "vrhe_sound_publiccoin", "vrhe_count_interactive", "hooghVerifyStack_eq")],
    predicate=pred_c04,
    level_text="Soundness reductions in Lean 4 for the VTMF sigma protocols: special soundness (two answers give the witness, in particular equal logarithms), "
               "the honest algorithm with a non-fitting witness is accepted only on an explicit hash collision or for one challenge residue class, and the verifiers' exact decision logic. "
               "The correspondence run plays non-fitting provers (unequal logs, re-typed mask, wrong-key share, substituted/duplicated card, non-cyclic permutation as rotation) against the real verifiers with served verifier coins "
               "and replays the exact cut-and-choose statement (a false statement survives exactly the rounds whose challenge the prover can answer). "
               "Cut-and-choose: if one commitment can be opened for both challenge bits, a re-masking (cyclic) permutation relating the two stacks is extracted or an explicit hash collision exhibited; hence for a false statement, "
               "any commitments and ANY response strategy at most one of the 2^kappa challenge vectors is accepted (probability <= 2^-kappa; proving this exposed finding F26). "
               "Rotation / shuffle arguments: false statements (replaced, swapped, duplicated, retyped cards, non-cyclic permutation as rotation) are played against the real verifiers and the model; the exact challenge values on which such a cheat passes are exhibited (lucky:* lines). "
               "Shuffle / rotation arguments (round 2): for the honest prover algorithm run with a witness that does not fit - an output stack with a substituted / re-typed card, a map that is not a permutation (duplicated, dropped card), a non-cyclic permutation presented as a rotation, a commitment that does not open to the messages - acceptance by the model verifier forces an explicit algebraic relation on the verifier's challenges (GrothRel, SkcRoot, RotRel), in the interactive, public-coin and non-interactive modes (there relative to the oracle answers), and the number of accepted challenges is bounded: at most n of |T| values x for the shuffle of known content (roots of a non-zero polynomial of degree n), at most |T|^(n-1) of |T|^n challenge vectors for a substituted card or a non-rotation (a non-trivial form in the exponent), at most (2n-1)|T| of |T|^2 pairs (lambda, x) for a dropped index. The explicit exceptional sets are computed by the model and compared with the real verifier's verdict on every cheat line (args.*.exceptional). Knowledge soundness (extraction from an arbitrary prover) is not attempted.",
    level_note=LEVEL_NOTE + " Hash collision resistance and hardness of discrete logs are assumptions named in the theorem statements (explicit Collision disjunct).",
    trusted=ZK_TRUST,
    assumptions=["Groth/VRHE: soundness for the honest prover algorithm with a non-fitting witness (counting bounds over the challenges); knowledge soundness against arbitrary provers not attempted; the 2^-kappa bound assumes no hash collision among stack texts (explicit hypothesis NoStackCollision)",
                 "collision resistance of the hash (explicit disjunct), discrete-log hardness"],
)
PROPS["C05"] = dict(
    module="TmcgProps.C05",
    areas=ZK_AREAS,
    obligations=[("Tmcg.C05.hooghVerifyStack_refuses", "full"), ("Tmcg.C05.grothVerifyStack_refuses", "full"),
                 ("Tmcg.C05.shash_input_injective", "full"), ("Tmcg.C05.cp_hash_covers", "full"),
                 ("Tmcg.C05.cp_range_refuse", "full"), ("Tmcg.C05.nizk_range_refuse", "full"),
                 ("Tmcg.C05.cp_bind", "full"), ("Tmcg.C05.nizk_bind", "full"),
                 ("Tmcg.C05.cp_equivalent_response", "full"), ("Tmcg.C05.fpowm_wrong_base_refused", "full")],
    predicate=pred_c05,
    level_text="Lean 4 theorems: the Fiat-Shamir hash input is injective in its argument list and covers group, key, commitments, statement and bases; out-of-range values are refused; "
               "replacing a statement value, base or (non-equivalently) the response of an accepted proof needs an explicit hash collision; the accepted equivalent representative (r, r-q) is characterised. "
               "Correspondence: the mutation catalogue (13 mutations x every transmitted value and public input) against every real verifier, verdicts and hash queries compared with the model.",
    level_note=LEVEL_NOTE + " Collision resistance is an explicit disjunct.",
    trusted=ZK_TRUST,
    assumptions=["partial: binding theorems exist for Chaum-Pedersen and the key NIZK (which all VTMF card proofs reduce to); OR proof, stack proofs, Groth/VRHE, Rabin signatures: mutation correspondence only so far"],
)


# ---------------------------------------------------------------------------- C06
def is_prime(n):
    if n < 2:
        return False
    small = [2, 3, 5, 7, 11, 13, 17, 19, 23, 29, 31, 37]
    for sp in small:
        if n % sp == 0:
            return n == sp
    d, s = n - 1, 0
    while d % 2 == 0:
        d //= 2; s += 1
    import random
    rnd = random.Random(n & 0xffffffff)
    bases = small + [rnd.randrange(2, n - 1) for _ in range(20)]
    for a in bases:
        x = pow(a, d, n)
        if x in (1, n - 1):
            continue
        for _ in range(s - 1):
            x = x * x % n
            if x == n - 1:
                break
        else:
            return False
    return True


def s62(z):
    digs = "0123456789ABCDEFGHIJKLMNOPQRSTUVWXYZabcdefghijklmnopqrstuvwxyz"
    if z == 0:
        return "0"
    n, out = abs(z), ""
    while n:
        out = digs[n % 62] + out; n //= 62
    return ("-" if z < 0 else "") + out


def ggen_ref(p, q, k, log):
    """first accepted candidate of the verifiable generator derivation, hash answers from the log"""
    ans = {}
    for e in plist(log):
        hq, a = e.split(":")
        ans[bytes.fromhex(hq).decode("latin1")] = int(a)
    U = "LibTMCG|%s|%s|ggen|" % (s62(p), s62(q))
    for _ in range(len(ans) + 1):
        if U not in ans:
            return None
        g2 = pow(ans[U], k, p)
        U += s62(g2) + "|"
        if g2 not in (0, 1, p - 1) and pow(g2, q, p) == 1:
            return g2
    return None


def gen_ok(x, p, q):
    return 1 < x < p - 1 and pow(x, q, p) == 1


def group_spec(cls, fs, gsz, can, es, p, q, k, g, h, gs, log):
    """True/False = what a well-formedness specification says, None = do not judge"""
    if cls == "QR":
        if p.bit_length() < fs or max(1, abs(q).bit_length()) < gsz or p != 2 * q + 1:
            return False
        if not (is_prime(p) and is_prime(q)) or p % 8 != 7 or not (1 < g < p - 1):
            return False
        if pow(g, q, p) != 1 or p.bit_length() < es:
            return False
        return g == pow(2, 2 ** (p.bit_length() - es), p)
    if q <= 0 or p <= 2:
        return False
    kk = k if cls in ("D", "P", "PT") else (p - 1) // q
    if p.bit_length() < fs or q.bit_length() < gsz or q * kk + 1 != p:
        return False
    if not (is_prime(p) and is_prime(q)) or math.gcd(q, kk) != 1:
        return False
    need_can = (cls in ("D", "R") and can) or cls == "PVSS"
    if cls in ("D", "NP"):
        ok = gen_ok(g, p, q)
    elif cls == "P":
        ok = gen_ok(h, p, q) and all(gen_ok(x, p, q) and x != h for x in gs) and len(set(gs)) == len(gs)
    else:
        ok = gen_ok(g, p, q) and gen_ok(h, p, q) and g != h
    if not ok:
        return False
    if need_can:
        c = ggen_ref(p, q, kk, log)
        if c is None:
            return None
        return c == g
    return True


def pred_c06(line, st):
    op, a, r = toks(line)
    if op == "grp.check":
        cls, fs, gsz, can, es = a[0], int(a[1]), int(a[2]), a[3] == "1", int(a[4])
        p, q, k, g, h = (int(x) for x in a[5:10])
        gs = ilist(a[10]); log = a[13]
        if is_err(r):
            return "CheckGroup did not return (%s)" % r[0]
        want = group_spec(cls, fs, gsz, can, es, p, q, k, g, h, gs, log)
        got = r[0] == "1"
        t = tag_of(a)
        if t.startswith("valid") and not got:
            return "a parameter set generated like the library's own is refused (class %s)" % cls
        if want is None:
            return None
        if got and not want:
            return "ill-formed parameter set accepted (class %s, %s)" % (cls, t)
        if want and not got:
            return "well-formed parameter set refused (class %s, %s)" % (cls, t)
        return None
    if op == "grp.elem":
        qr, p, q, x = a[0] == "1", int(a[1]), int(a[2]), int(a[3])
        want = 0 < x < p and pow(x, q, p) == 1
        if (r[0] == "1") != want:
            return "CheckElement wrong for %d mod %d" % (x, p)
    return None


PROPS["C06"] = dict(
    module="TmcgProps.C06",
    areas=[("groups", {"quick": 160, "thorough": 800}, [], "san")],
    obligations=[("Tmcg.C06.checkGroup_D_iff", "full"), ("Tmcg.C06.checkGroup_D_canonical_iff", "full"),
                 ("Tmcg.C06.checkGroup_G_iff", "full"), ("Tmcg.C06.checkGroup_R_canonical_iff", "full"),
                 ("Tmcg.C06.checkGroup_NP_iff", "full"), ("Tmcg.C06.checkGroup_PT_iff", "full"),
                 ("Tmcg.C06.checkGroup_P_iff", "full"), ("Tmcg.C06.checkGroup_QR_iff", "full"),
                 ("Tmcg.C06.checkGroup_D_sound", "full"), ("Tmcg.C06.checkElement_iff", "full"),
                 ("Tmcg.C06.checkElement_eq_sigma", "full")],
    predicate=pred_c06,
    level_text="Lean 4 theorems: each of the eight families of CheckGroup copies (17 classes) accepts exactly its specification (sizes, p = kq+1 resp. 2q+1 and 7 mod 8, primality oracle, coprime cofactor, generators in range of order dividing q, distinctness, canonical generator = first candidate of the verifiable derivation); "
               "accepted class-D sets are well-formed Schnorr groups when the oracle is right; CheckElement decides subgroup membership. Correspondence: all 17 real classes on valid sets and 30 kinds of single-field corruption, verdicts and hash queries of the canonical derivation compared with the model.",
    level_note=LEVEL_NOTE + " mpz_probab_prime_p is an oracle (its answers are taken from the run; probable prime = prime is assumed).",
    assumptions=["probable-prime test = primality", "first clause (area groupgen, TmcgProps/C06Gen.lean): the generating constructors of all classes are modelled as functions of their coins, the primality oracle and the hash; what they return passes the class's own CheckGroup (and that of the classes that copy p, q, g, h) - under: the oracle is right about the returned p (and q for the QR group), and no two independently generated generators coincide (accepted <-> no coincidence: the library does not redraw, known finding F55); the multi-party common key is modelled for one party (h = g^x)"],
)


# ---------------------------------------------------------------------------- C11
def pred_c11(line, st):
    op, a, r = toks(line)
    if op == "io.roundtrip":
        return None if r == ["1"] else "export/import round trip of a %s changed the object or its text" % a[0]
    if op == "codec.str62":
        st["last62"] = (r[0], int(a[0]))
        return None
    if op == "codec.parse62" and st.get("last62") and st["last62"][0] == a[0]:
        v = st["last62"][1]
        if r[0] == "none" or int(r[0]) != v:
            return "integer %d does not survive the transport encoding" % v
    return None


from pred_c06gen import pred_c06gen  # noqa: E402


def pred_c06_all(line, st):
    if line.startswith(("groupgen.", "prop.groupgen")):
        return pred_c06gen(line, st)
    return pred_c06(line, st)


PROPS["C06"]["areas"] = [("groups", {"quick": 160, "thorough": 800}, [], "san"),
                         ("groupgen", {"quick": 24, "thorough": 96}, [], "san")]
PROPS["C06"]["predicate"] = pred_c06_all
PROPS["C06"]["obligations"] += [("Tmcg.C06." + n, "full") for n in (
    "vtmf_generated_passes", "vtmf_consumers_iff", "vtmf_eotp_passes", "vtmf_pt_iff", "vtmf_pedersen_iff",
    "pedersen_generated_iff", "pedersen_setup_iff", "pt_generated_iff", "vrhe_generated_iff",
    "eotp_generated_passes", "qr_generated_passes")]
from pred_c11b import pred_c11b  # noqa: E402  (QR cards, keys, groups, protocol state)


def pred_c11_all(line, st):
    if line.startswith(("io2.", "prop.io2.")):
        return pred_c11b(line, st)
    return pred_c11(line, st)


def c11_final(st):
    if "io2_roundtrips" in st or "io2_pairs" in st:
        if st.get("io2_roundtrips", 0) < 50 or st.get("io2_pairs", 0) < 50:
            return "harness: the io2 area produced too few round trips (%s judged by the harness, %s re-judged from export/import line pairs)" % (st.get("io2_roundtrips", 0), st.get("io2_pairs", 0))
    return None


PROPS["C11"] = dict(
    module="TmcgProps.C11",
    areas=[("io", {"quick": 200, "thorough": 1500}, [], "san"),
           ("io2", {"quick": 64, "thorough": 300}, [], "san")],
    obligations=[("Tmcg.C11.int62_roundtrip", "full"), ("Tmcg.C11.card_import_export", "full"),
                 ("Tmcg.C11.secret_import_export", "full"), ("Tmcg.C11.stack_import_export", "full"),
                 ("Tmcg.C11.stack_import_refuses_size", "full"), ("Tmcg.C11.stacksecret_import_export", "full"),
                 ("Tmcg.C11.stacksecret_import_is_bijection", "full"), ("Tmcg.C11.stack_export_import_export", "full")]
                + [("Tmcg.C11." + n, "full") for n in ["import_export_vtmf'", "import_export_qr'", "import_export_com'", "import_export_trap'", "import_export_vrhe'", "import_export_eotp'", "import_export_vsshe'", "import_export_vss'", "import_export_gdkg'", "import_export_rvss'", "import_export_cdkg'", "import_export_dss'", 'export_import_export_vtmf', 'export_import_export_qr', 'export_import_export_com', 'export_import_export_trap', 'export_import_export_vrhe', 'export_import_export_eotp', 'export_import_export_vsshe', 'export_import_export_vss', 'export_import_export_gdkg', 'export_import_export_rvss', 'export_import_export_cdkg', 'export_import_export_dss', 'import_export_gdkg_keys', 'import_export_tcard', 'import_export_tsecret', 'import_export_tstack', 'import_export_tsts', 'export_import_export_tcard', 'export_import_export_tsecret', 'export_import_export_tstack', 'export_import_export_tsts', 'import_export_pub', 'import_export_sec', 'readPub_line', 'readRing_text', 'export_import_export_pub', 'export_import_export_sec', 'importVss_refuses_n']],
    predicate=pred_c11_all, final=c11_final,
    level_text="Round-trip theorems in Lean 4 for the text transport encoding: base-62 integers (zero, negative, any length), discrete-log cards, card secrets, stacks of every admissible size and stack secrets with bijective index component: import(export x) = x, hence identical re-export. "
               "The codec model (mpz_set_str/mpz_get_str in base 62, strtoul, the cm/gs/nx parse helpers, c_str truncation) is compared with the real importers on valid and mutated texts. "
               "Second part (area io2): the same for QR-encoded cards, card secrets and their stacks, public and secret keys (import incl. precompute, operator>> line by line, key rings), the group / commitment parameter streams (BarnettSmartVTMF_dlog, its GroupQR variant, PedersenCommitmentScheme, PedersenTrapdoorCommitmentScheme, VRHE, NaorPinkasEOTP, GrothVSSHE with the inner SKC) and persisted protocol state (PedersenVSS, GJKR DKG incl. PublishVerificationKeys, CGJKR RVSS/ZVSS/DKG/DSS): import(export x) = x and identical re-export for every well-formed x, where well-formed is a decidable predicate evaluated on every object the harness exports (io2.wf lines). All 32 x 10 card dimensions, n = 1..7 with every t <= n, 4094-digit integers. "
               "Types without a text form (TMCG_OpenStack, TMCG_PublicKeyRing as a whole, JareckiLysyanskaya RVSS/EDCF, GJKR NTS, PUBROTZK) have no round trip to state.",
    level_note=LEVEL_NOTE,
    assumptions=["std::istream / std::getline / stringstream >> size_t are modelled after libstdc++ (unread text + good flag)",
                 "fields lost by design are outside the round trip: PedersenTrapdoorCommitmentScheme does not export sigma; the GroupQR importer recomputes g; key fields containing the separator '|' are not escaped (wf excludes them)"],
)


# ---------------------------------------------------------------------------- C13
def pred_c13(line, st):
    op, a, r = toks(line)
    if op == "prop.aio.backpressure":
        st["backpressure_sleeps"] = st.get("backpressure_sleeps", 0) + int(a[3])
        return None if r[0] == "exercised" else "harness: the back-pressure scenario never filled the sender's pipe"
    if op == "prop.aio.partial-write":
        return "a refused Send() nevertheless wrote bytes to the link"
    if op != "prop.aio":
        return None
    auth, enc, chunked, cls, tamper, good = a[0] == "1", a[1] == "1", a[2] == "1", a[3], a[4], int(a[5])
    sent, got = ilist(a[6]), ilist(r[0])
    mode = "%s auth=%d enc=%d chunked=%d" % (cls, auth, enc, chunked)
    st.setdefault("modes", set()).add((mode, tamper))
    if tamper == "none":
        if got != sent:
            return "untampered stream (%s): delivered %d of %d messages or altered them" % (mode, len(got), len(sent))
        return None
    if not auth:
        return None            # without authentication nothing is promised about tampering
    # with authentication: nothing modified is delivered ...
    if got != sent[:len(got)]:
        # delivered sequence is not a prefix of the sent one
        if chunked and all(x in sent for x in got) and tamper in ("remove", "reorder", "replay"):
            return None        # chunked mode only promises integrity of each message, not of the sequence
        return "tampered stream (%s, %s): delivered sequence is not a prefix of the sent sequence" % (mode, tamper)
    # ... and every message completely in front of the first modified byte is still delivered
    if len(got) < good:
        return "tampered stream (%s, %s): message before the modification was lost" % (mode, tamper)
    return None


from pred_c13b import pred_c13b  # noqa: E402  (chunked mode, non-blocking class, several peers)


def pred_c13_all(line, st):
    if line.startswith(("prop.aio2", "aio2.")):
        return pred_c13b(line, st)
    return pred_c13(line, st)


def c13_final(st):
    if "nbq" in st or "timeouts" in st:
        if st.get("nbq", 0) < 10 or st.get("timeouts", 0) < 5 or len(st.get("peers", ())) < 4:
            return "harness: the aio2 area exercised too little (queue scenarios %s, time-outs %s, peer scenarios %s)" % (st.get("nbq", 0), st.get("timeouts", 0), len(st.get("peers", ())))
    return None


PROPS["C13"] = dict(
    module="TmcgProps.C13",
    areas=[("aio", {"quick": 96, "thorough": 500}, [], "san"),
           ("aio2", {"quick": 96, "thorough": 400}, [], "san")],
    obligations=[("Tmcg.C13.recv_fragmentation_invariant_safety", "full"),
                 ("Tmcg.C13.recv_fragmentation_invariant_delivery", "full"),
                 ("Tmcg.C13.send_fits_buffer", "full"), ("Tmcg.C13.first_newline_is_delimiter", "full"),
                 ("Tmcg.C13.bad_tag_never_delivered", "full"), ("Tmcg.C13.auth_delivers_only_tagged", "full")]
                + [("Tmcg.C13." + n, "full") for n in ['nb_send_all_or_nothing', 'nb_send_refused', 'nb_send_timeout', 'closed_link_silent', 'closed_link_silent_select', 'nb_send_mid_message_closes', 'nb_accepted_prefix', 'nb_recv_fragmentation_invariant', 'chunked_roundtrip', 'chunked_any_state', 'chunked_integrity', 'peers_not_mixed', 'link_prefix', 'link_complete', 'link_prefix_truncated', 'frame2_length_le']]
                + [("Tmcg.C13." + n, "full") for n in ['array_roundtrip', 'arrays_peers_not_mixed', 'fit_uniform', 'array_prefix_under_tamper', 'arrCheck_AI', 'sendArrGo_select', 'sendArrSeq_spec', 'arrays_prefix_general', 'arrays_accepted_prefix']],
    predicate=pred_c13_all, final=c13_final,
    level_text="Lean 4 theorems about the executable model of the channel's sender and receiver (stream modes): for every message list, every fragmentation of the byte stream and every interleaving of arrivals and Receive calls the delivered sequence is a prefix of the sent one with no failing call, "
               "and it is complete after finitely many calls; accepted messages always fit the reassembly buffer; a bad tag is never delivered and stops the link; a delivered message carried a tag valid for the current sequence number (forgery reduction). "
               "Correspondence: the real select-based objects on harness-owned pipes, every Send and every Receive(timeout 0) call recorded with the state before/after and the MAC/cipher oracle answers (interposed libgcrypt), fragmentation schedules and wire tampering; "
               "Second part (area aio2): one receiver model for all 16 class x mode combinations (plain, CFB, chunked CTR line codecs) with fragmentation invariance in every mode; the non-blocking sender on a byte queue of any capacity with any drain schedule and a clock (EAGAIN, sleep, time-out in the IV, line or tag stage): a true-returning Send has put exactly the complete framing on the link, a false-returning one a strict prefix and then closes the link (repair of F41), hence for ANY sequence of Sends the delivered sequence is a prefix of the accepted values; several peers behind one object under the three schedulers are never mixed. Real objects: write(2) interposed for registered descriptors (simulated queue), time-outs forced, wire tampering catalogue, reflection and two-direction probes.",
    level_note=LEVEL_NOTE + " MAC unforgeability and cipher secrecy are assumed; real select() timing is not modelled (the harness forces select time-outs to zero); a full pipe (EAGAIN) of the non-blocking class is exercised by a back-pressure scenario in which the sender's sleep() is turned into receiver progress.",
    assumptions=["HMAC unforgeability, AES-CFB/CTR secrecy", "integer arrays: safety (prefix statements) proved, liveness observed on the real objects only; arrays_accepted_prefix for the select class; only time-out 0 of the vector Receive is modelled; EOF on read and multi-peer liveness are not modelled",
                 "known finding F50: mixing the single-value and the vector Receive on one link delivers out of sending order",
                 "known finding F13: the IV of an encrypted link is not covered by the MAC",
                 "known finding F42: no direction separation under the MAC (a reflected own message is delivered)",
                 "known finding F43: chunked+encrypted select links reuse the CTR keystream in the two directions"],
)


# ---------------------------------------------------------------------------- C12
def pred_c12(line, st):
    op, a, r = toks(line)
    if op.startswith("args.") and tag_of(a) == "one-card":
        # the argument classes assert n >= 2 on the CALLER's statement (a stack of one card); the size of the caller's own
        # stack is not untrusted input (the stack-level verifiers compare the received stack's size with it first)
        return None
    if r and (r[0].startswith("trap:") or r[0] in ("timeout", "oom")):
        return "untrusted input ended in %s (%s)" % (r[0], op)
    if op == "prop.args.malformed" and any(x.startswith("trap:") for x in r):
        # a malformed statement with a re-proved / forged transcript reached the verifier's arithmetic (seed C12c)
        return "verifier of a malformed statement ended in %s (%s)" % ([x for x in r if x.startswith("trap:")][0], " ".join(a))
    if op.startswith("prop.parse") and r and r[0] not in ("ok", "reject", "accept") and not r[0].startswith("throw:"):
        return "parser outcome %s" % r[0]
    return None


PROPS["C12"] = dict(
    module="TmcgProps.C12",
    areas=[("io", {"quick": 200, "thorough": 1500}, [], "san"), ("groups", {"quick": 100, "thorough": 800}, [], "san"),
           ("parse", {"quick": 30, "thorough": 300}, [], "san"),
           # the receiving side of the shuffle / rotation argument verifiers: mutated, re-proved and forged transcripts for
           # malformed statements (prop.args.malformed), order of checks compared with the model (oracle-unused)
           ("args", {"quick": 11, "thorough": 22}, [], "fast"),
           # boundary generator for the OpenPGP packet / subpacket decoders, verdict and consumed length compared with the bounds model
           ("parse2", {"quick": 300, "thorough": 2000}, [], "san")],
    obligations=[("Tmcg.C12.pgp_capacities_are_the_headers", "full"), ("Tmcg.C12.pgp_every_access_in_bounds", "full"),
                 ("Tmcg.C12.pgp_consumes_at_most_input", "full"), ("Tmcg.C12.pgp_decode_in_bounds", "full"),
                 ("Tmcg.C12.pgp_subpacket_in_bounds", "full"), ("Tmcg.C12.pgp_copy_accepts_iff", "full"),
                 ("Tmcg.C12.imported_indices_in_range", "full"), ("Tmcg.C12.import_alloc_bound", "full"),
                 ("Tmcg.C12.remask_never_traps", "full"), ("Tmcg.C12.mix_never_traps", "full"),
                 ("Tmcg.C12.verifier_index_safe", "full"), ("Tmcg.C12.size_mismatch_aborts", "full")],
    predicate=pred_c12,
    level_text="Partial by nature. Lean 4 theorems about the model's parsing and indexing logic (importers total with bounded allocation and in-range indices; re-masking, mixing and the cut-and-choose verifier end in a verdict or a standard exception for every input). "
               "C++ memory safety rests on sanitizer-observed behaviour: the real importers, stream constructors + CheckGroup, key/card/stack parsers, OpenPGP decoders and verifier receive paths are fed structure-aware mutations of valid inputs under ASan/UBSan; any sanitizer report, signal, abort or time-out is a violation with the input as replay.",
    level_note=LEVEL_NOTE + " There is no proof about the C++ heap; agreement and absence of sanitizer reports are established on the explored inputs only.",
    assumptions=["partial: theorems cover the model's logic for the discrete-log card family; the other parsers are covered by sanitizer exploration only"],
)


# ---------------------------------------------------------------------------- C10
RESIGNED_MUST_REFUSE = ("resigned:m:neg", "resigned:y:jacobiminus", "resigned:type:claimsnizk", "resigned:nizk:")


def pred_c10(line, st):
    """Rabin keys, judged on the real library's verdicts (independent of the Lean model).  Tags:
    honest / equiv:* / short:* (the library's variable-length key ids, by design) must be accepted,
    mut:* / cheat:* / guard:* must be refused; resigned:* (key altered AND re-signed by its holder) are
    judged individually: only the listed ones are ill-formed keys."""
    op, a, r = toks(line)
    if op != "prop.rabin":
        return None
    kind = a[0]
    t = tag_of(a)
    good = t == "honest" or t.startswith(("honest:", "equiv:", "short:"))
    bad = t.startswith(("mut:", "cheat:", "guard:")) or t.startswith(RESIGNED_MUST_REFUSE)
    if kind == "sign":
        st["sign"] = st.get("sign", 0) + 1
        return None if r[0] == "1" else "signature made with the secret key does not verify under the matching public key (%s)" % " ".join(a[1:])
    if kind == "verify":
        st["verify"] = st.get("verify", 0) + 1
        if good and r[0] != "1":
            return "verify refused a %s signature" % t
        if bad and r[0] != "0":
            return "verify accepted an altered signature / other data / other key (%s)" % t
        return None
    if kind == "decrypt":
        st["decrypt"] = st.get("decrypt", 0) + 1
        exp = [x for x in a if x.startswith("expect=")][0][7:]
        if good and r[0] != exp:
            return "decrypt returned %s for a %s ciphertext of %s" % (r[0][:20], t, exp[:20])
        if bad and r[0] != "reject":
            return "decrypt accepted an altered ciphertext (%s)" % t
        return None
    if kind == "check":
        st["check"] = st.get("check", 0) + 1
        if good and r[0] != "1":
            return "key validation refused a %s key" % t
        if bad and r[0] == "1":
            return "key validation accepted an ill-formed key (%s)" % t
        return None
    if kind == "roundtrip":
        v = [x for x in a if x.startswith("value=")][0][6:]
        return None if r[0] == v else "decryption returned %s, encrypted was %s" % (r[0][:20], v[:20])
    if kind == "boundary":
        return None if r[0] == "1" else "honest boundary case refused (%s)" % " ".join(a[1:])
    if kind in ("secretkey.check", "secretkey.verify"):
        return None if r[0] == "1" else "%s failed on a generated key" % kind
    if kind == "generate":
        st["rabin_generated"] = st.get("rabin_generated", 0) + 1
        return None if r[0] == "check=1" else "key validation refused a key the library generated itself (%s)" % " ".join(a[1:4])
    if kind in ("sqrtmp", "sqrtmn"):
        # residues=N => ok_r=N ok_det=N [...]: every residue's root squared back, for every routine
        n = [x for x in a if x.startswith("residues=")]
        if n:
            for x in r:
                if x.startswith("ok") and x.split("=")[1] != n[0][9:]:
                    return "square roots modulo %s: %s of %s residues squared back" % (a[1], x, n[0][9:])
        return None
    return None


# ---------------------------------------------------------------------------- C14
def pred_c14(line, st):
    op, a, r = toks(line)
    if op != "prop.rbc":
        return None
    run, n, t, fifo, fskip, byz, pattern, drained = a[0], int(a[1]), int(a[2]), a[3] == "1", int(a[4]), a[5], a[6], a[7] == "1"
    honest = ilist(a[8])
    bc = [x.split(":") for x in plist(a[9])]      # party:ID:seq:value:fifo
    dl = [x.split(":") for x in plist(a[10])]     # party:curID:sender:seq:value:msgID:fifo
    throws = plist(a[13]) if len(a) > 13 else []
    nbyz = 0 if byz == "-" else 1
    if nbyz > t or 3 * t >= n:
        return None                                 # outside the fault assumption: nothing is promised
    st["runs"] = st.get("runs", 0) + 1
    bset = {(int(x[0]), x[1], x[2]): x[3] for x in bc}
    seen = {}
    per_party_slots = {}
    order = {}
    for x in dl:
        p, cur, snd, seq, val, mid, ff = int(x[0]), x[1], int(x[2]), x[3], x[4], x[5], x[6] == "1"
        if p not in honest:
            continue
        slot = (mid, snd, seq)
        # channel isolation
        if cur != mid:
            return "run %s: party %d delivered a value of channel %s.. while its current channel was %s.." % (run, p, mid[:8], cur[:8])
        # agreement
        if slot in seen and seen[slot][0] != val:
            return "run %s (n=%d t=%d %s): parties %d and %d delivered different values for sender %d slot %s" % (run, n, t, pattern, seen[slot][1], p, snd, seq)
        seen.setdefault(slot, (val, p))
        # no duplication
        k = (p, slot)
        if k in per_party_slots:
            return "run %s (n=%d t=%d fifo=%d %s): party %d delivered sender %d slot %s twice" % (run, n, t, ff, pattern, p, snd, seq)
        per_party_slots[k] = True
        # integrity for honest senders
        if snd in honest and bset.get((snd, mid, seq)) != val:
            return "run %s: party %d delivered for honest sender %d slot %s a value it did not broadcast" % (run, p, snd, seq)
        # FIFO order
        if ff and fskip == 0:
            key = (p, mid, snd)
            want = order.get(key, 0) + 1
            if int(seq) != want:
                return "run %s (%s): party %d delivered slot %s of sender %d, expected slot %d (FIFO order)" % (run, pattern, p, seq, snd, want)
            order[key] = want
    if throws and t > 0:
        return "run %s: Deliver threw %s within the fault assumption" % (run, throws[:2])
    # validity and totality: once every protocol message has been handed over (the harness drained the
    # network, all parties back on the main channel).  Not promised: with the skip heuristic on (slots are
    # dropped by design), and for the channel-switching pattern (a party that was outside a channel while a
    # slot completed only catches up through the recovery path, exercised but not required to be total).
    if drained and fskip == 0 and pattern != "chan":
        st["total_runs"] = st.get("total_runs", 0) + 1
        got = {}
        for x in dl:
            if int(x[0]) in honest:
                got.setdefault((x[5], int(x[2]), x[3]), set()).add(int(x[0]))
        for x in bc:
            snd, mid, seq = int(x[0]), x[1], x[2]
            if snd in honest:
                miss = [p for p in honest if p not in got.get((mid, snd, seq), set())]
                if miss:
                    return "run %s (n=%d t=%d fifo=%d %s): broadcast of honest sender %d slot %s never delivered by honest parties %s although every message was handed over" % (run, n, t, fifo, pattern, snd, seq, miss)
        for slot, who in got.items():
            miss = [p for p in honest if p not in who]
            if miss:
                return "run %s (n=%d t=%d fifo=%d %s): sender %d slot %s delivered by %s but never by %s although every message was handed over" % (run, n, t, fifo, pattern, slot[1], slot[2], sorted(who), miss)
    return None


PROPS["C10"] = dict(
    module="TmcgProps.C10",
    areas=[("rabin", {"quick": 8, "thorough": 12}, ["--sqrt-primes", "400"], "san")],
    obligations=[("Tmcg.C10." + n, "full") for n in (
        "sqrtmp_sq_all", "sqrtmnR_sq", "sqrtmnFastAll_sq", "precompute_ok", "verify_sign", "verify_neg_root", "verify_accepts_iff",
        "verify_accepted_square'", "verify_same_pad", "verify_data_collision", "verify_keyid", "decrypt_encrypt", "decrypt_accepts_iff",
        "decrypt_accepted", "decrypt_unique_ciphertext", "decrypt_same_encoding", "check_stage_counts", "check_refuses_short_proof",
        "check_refuses_nonpositive_modulus", "toyKey_blum", "toyKey_pre", "toyKey_keyid",
        "safe_prime", "generate_blum", "generate_preconditions", "generate_sig", "generate_selfsig", "generated_verify_sign",
        "generated_decrypt_encrypt", "response_ok1", "response_ok2", "response_ok3", "checkNizk_complete", "check_generate")],
    predicate=pred_c10,
    level_text="Theorems in Lean 4 about models of sign/verify (PRab), encrypt/decrypt (SAEP), the square-root routines (all three branches mod p, CRT mod n, all four roots), the key-id functions and the decision logic of "
               "key validation, with the hash functions as arbitrary parameters: signatures verify for every Blum key, data and coins; exact acceptance conditions of verify and decrypt, from which: the negated root is the only other "
               "accepted value with the same padding, altered data is accepted only on an explicit hash collision, a foreign key id is refused, a ciphertext is determined by the root it opens through; decrypt(encrypt v) = v; "
               "key validation refuses shortened NIZK stages and non-positive moduli. Correspondence: keys from the real constructor (424..832 bits, one NIZK key), every field of key/signature/ciphertext text mutated, "
               "exhaustive square roots for small primes; model recomputes every library call with the logged hash answers. Key generation (tmcg_mpz_sprime3mod4 with its sieves and the Lucas-type step, choice of y, the NIZK prover of the three stages, the self-signature) is modelled too: every generated key is a Blum key of safe primes with p != q mod 8 and a non-residue y of Jacobi symbol 1 (primality of p = 2q+1 is proved, not assumed), satisfies the preconditions of sign/encrypt, and passes key validation (completeness of the three NIZK stages); every key generated in a run is reproduced byte for byte by the model from the logged coins and primality answers.",
    level_note=LEVEL_NOTE + " tmcg_h/tmcg_g are oracle parameters (answers logged from the real functions); mpz_probab_prime_p is an oracle answer per line.",
    assumptions=["hash functions are parameters: tamper evidence for altered data is stated as a reduction to an explicit collision",
                 "decrypt_encrypt assumes: modulus bit length not a multiple of 8, encoded value a unit mod m, no redundancy collision of g among the other three roots",
                 "key generation: mpz_probab_prime_p is an oracle assumed sound (never calls a composite prime) for the cofactor q only; check_generate assumes KeyIdOk (the self-signature value has at least 8 base-62 digits; otherwise the real library refuses its own key as well); variable-length key ids (suffixes) are accepted by design"],
)
PROPS["C14"] = dict(
    module="TmcgProps.C14",
    areas=[("rbc", {"quick": 24, "thorough": 120}, [], "san")],
    obligations=[("Tmcg.C14.agreement", "full"), ("Tmcg.C14.integrity", "full"), ("Tmcg.C14.no_duplication", "full"),
                 ("Tmcg.C14.non_vacuous", "full"), ("Tmcg.C14.digest_zero_breaks_agreement", "full"),
                 ("Tmcg.C14.delivery_spec", "full"), ("Tmcg.C14.delivery_spec_fails_with_skip", "full"),
                 ("Tmcg.C14.fifo_order", "full"), ("Tmcg.C14.deliver_keeps_channel", "full"),
                 ("Tmcg.C14.deliverFrom_isolation", "full"), ("Tmcg.C14.unset_restores", "full"),
                 ("Tmcg.C14.validity", "full"), ("Tmcg.C14.totality", "full"),
                 ("Tmcg.C14.validity_first_formulation_false", "full"), ("Tmcg.C14.validity_non_vacuous", "full")],
    predicate=pred_c14,
    level_text="Invariant proofs in Lean 4 over a model of Deliver/Broadcast/DeliverFrom/setID/unsetID (every branch of the C++ event loop) composed into an n-party system with arbitrary message "
               "scheduling and arbitrary messages on the links of up to t<n/3 Byzantine parties: agreement, integrity, no duplication (FIFO on and off) for every reachable state; per-party theorems for FIFO order, "
               "channel isolation of Deliver and DeliverFrom, nested channel restore. Correspondence: the real class stepped one Deliver call at a time over an in-memory link layer (n=2..7, Byzantine catalogue, "
               "held/duplicated/out-of-order messages, channel switching), full internal state compared with the model after every call. "
               "Liveness: in every settled run in which all messages between honest parties were consumed, every honest broadcast is delivered by all honest parties (validity) and a slot delivered by one honest party is delivered by all (totality, also for Byzantine senders) — proved for the system model; the same is checked on drained runs of the real class by the predicate.",
    level_note=LEVEL_NOTE + " The digest function is a parameter: injective and never 0 (machine-checked counterexample without the second assumption).",
    assumptions=["digest function injective (collision resistance idealised) and H(m) != 0",
                 "validity needs a well-formed broadcast: digest within the length check of the handlers; without FIFO order a positive, not reused sequence number (machine-checked counterexamples otherwise); liveness is about one channel without DeliverFrom / channel switching",
                 "FIFO-order and delivery-spec theorems assume fifo_skip = 0 (the default); with the skip heuristic on, slots are dropped by design"],
)


# ---------------------------------------------------------------------------- C15
def _kv(a):
    return {x.split("=", 1)[0]: x.split("=", 1)[1] for x in a if "=" in x and not x.startswith("tag:")}


def _parties(r):
    out = {}
    for tok_ in r:
        if tok_.startswith("P") and ":" in tok_:
            k, v = tok_.split(":", 1)
            out[int(k[1:])] = None if v == "-" else v.split("|")
    return out


def _lagrange0(points, q):
    """value at 0 of the polynomial through (x_i, y_i), arithmetic mod prime q"""
    acc = 0
    for i, (xi, yi) in enumerate(points):
        num, den = 1, 1
        for j, (xj, _) in enumerate(points):
            if i != j:
                num = num * (-xj) % q
                den = den * (xi - xj) % q
        acc = (acc + yi * num * pow(den, -1, q)) % q
    return acc


def pred_c15(line, st):
    """secret sharing / key generation runs of the real classes (n forked parties), judged independently
    of the Lean model: agreement on QUAL and y, shares match the verification keys, every t+1 honest
    shares interpolate to the key's discrete logarithm, dealer-based sharing reconstructs the dealer's secret"""
    import itertools
    op, a, r = toks(line)
    if op not in ("prop.dkg.gen", "prop.dkg.vss"):
        return None
    kv = _kv(a)
    n, t = int(kv["n"]), int(kv["t"])
    nums = [x for x in a if x.isdigit()]
    p, q, g, h = (int(x) for x in nums[:4])
    honest = ilist(kv["honest"])
    P = _parties(r)
    tag = tag_of(a)
    where = "seed=%s case=%s n=%d t=%d %s" % (kv.get("seed"), kv.get("case"), n, t, tag)
    if any("CRASH" in x.upper() for x in r):
        return "a party crashed (%s)" % where
    if op == "prop.dkg.gen":
        st["gen"] = st.get("gen", 0) + 1
        H = [P.get(i) for i in honest]
        if any(x is None for x in H):
            return "an honest party died during Generate (%s)" % where
        if any(x[0] != "1" for x in H):
            return "Generate returned false for honest parties %s although at most t parties deviate (%s)" % ([i for i in honest if P[i][0] != "1"], where)
        quals = {x[1] for x in H}
        if len(quals) != 1:
            return "honest parties disagree on QUAL: %s (%s)" % (sorted(quals), where)
        qual = ilist(H[0][1])
        if not set(honest) <= set(qual):
            return "honest parties %s are not in QUAL %s (%s)" % (sorted(set(honest) - set(qual)), qual, where)
        ys = {x[4] for x in H}
        if len(ys) != 1:
            return "honest parties disagree on the public key (%s)" % where
        y = int(H[0][4])
        if len({x[5] for x in H}) != 1:
            return "honest parties disagree on the verification keys (%s)" % where
        v = ilist(H[0][5])
        for i in honest:
            x = int(P[i][2])
            if pow(g, x, p) != v[i] % p:
                return "share of honest party %d does not match its public verification key: g^x_i != v_i (%s)" % (i, where)
            if P[i][7] != "1":
                return "CheckKey failed at honest party %d (%s)" % (i, where)
        if len(honest) >= t + 1:
            subsets = list(itertools.combinations(honest, t + 1))
            if len(subsets) > 40:
                subsets = subsets[:20] + subsets[-20:]
            secrets = set()
            for S in subsets:
                secrets.add(_lagrange0([(i + 1, int(P[i][2])) for i in S], q))
            if len(secrets) != 1:
                return "different (t+1)-subsets of honest shares interpolate to different secrets (%s)" % where
            if pow(g, secrets.pop(), p) != y:
                return "the secret interpolated from honest shares is not the discrete logarithm of the public key (%s)" % where
        return None
    # ---- dealer-based sharing
    st["vss"] = st.get("vss", 0) + 1
    dealer = int(kv["dealer"])
    sigma = int(kv["sigma"])
    H = {i: P.get(i) for i in honest if i != dealer}
    if any(x is None for x in H.values()):
        return "an honest party died during Share (%s)" % where
    rets = {x[0] for x in H.values()}
    if len(rets) > 1:
        return "honest receivers disagree on the outcome of Share: %s (%s)" % ({i: x[0] for i, x in H.items()}, where)
    if dealer in honest and rets and rets != {"1"}:
        return "honest receivers rejected the sharing of an honest dealer (%s)" % where
    if rets == {"1"}:
        As = {x[3] for x in H.values()}
        if len(As) != 1:
            return "honest receivers hold different commitments (%s)" % where
        A = ilist(next(iter(As)))
        for i, x in H.items():
            lhs = pow(g, int(x[1]), p) * pow(h, int(x[2]), p) % p
            rhs = 1
            for k, Ak in enumerate(A):
                rhs = rhs * pow(Ak, (i + 1) ** k, p) % p
            if lhs != rhs:
                return "share of honest receiver %d is inconsistent with the dealer's commitments after an accepted sharing (%s)" % (i, where)
        recs = {x[5] for x in H.values() if len(x) > 5 and x[4] == "1"}
        if len(recs) > 1:
            return "honest parties reconstruct different secrets: %s (%s)" % (sorted(recs), where)
        if dealer in honest and recs and recs != {str(sigma)}:
            return "reconstruction returned %s, the honest dealer shared %d (%s)" % (recs, sigma, where)
        bad = [i for i, x in H.items() if len(x) > 5 and x[4] != "1" and "silentrec" not in tag and "badrecshare" not in tag]
        if bad and len(honest) >= t + 1 and dealer in honest:
            return "Reconstruct failed at honest parties %s (%s)" % (bad, where)
    return None


# ---------------------------------------------------------------------------- C16
def pred_c16(line, st):
    """signature verifiers against an independent evaluation of the textbook equations"""
    op, a, r = toks(line)
    if op == "tsig.dss.verify":
        a = [x for x in a if not x.startswith("tag:")]
        p, q, g, y, m, rr, ss = (int(x) for x in a[:7])
        ok = False
        if 0 < rr < q and 0 < ss < q:
            w = pow(ss, -1, q)
            ok = rr == (pow(g, m * w % q, p) * pow(y, rr * w % q, p) % p) % q
        st["dss"] = st.get("dss", 0) + 1
        if r[0] not in ("0", "1"):
            return "DSS verifier failed with %s" % r[0]
        if (r[0] == "1") != ok:
            return "DSS verifier says %s, the standard DSA equation and range conditions say %s (r=%d s=%d)" % (r[0], int(ok), rr, ss)
        return None
    if op == "dkg.sign":
        # remember the hash answers of this run for the summary line that follows
        log = {}
        for tok_ in a:
            if tok_.startswith("[") and ":" in tok_ and not tok_.startswith("[["):
                try:
                    for e in plist(tok_):
                        k, v = e.split(":")
                        log[bytes.fromhex(k).decode()] = int(v)
                except Exception:
                    pass
        st["sign_oracle"] = log
        return None
    if op == "prop.dkg.sign":
        kv = _kv(a)
        nums = [x for x in a if x.isdigit()]
        p, q, g, h = (int(x) for x in nums[:4])
        m = int(kv["m"])
        honest = ilist(kv["honest"])
        P = _parties(r)
        where = "seed=%s case=%s n=%s t=%s %s" % (kv.get("seed"), kv.get("case"), kv.get("n"), kv.get("t"), tag_of(a))
        done = {i: P[i] for i in honest if P.get(i) and len(P[i]) >= 7 and P[i][1] == "1"}
        st["sign_runs"] = st.get("sign_runs", 0) + 1
        st["sign_completed"] = st.get("sign_completed", 0) + (1 if done else 0)
        if not done:
            return None
        sigs = {(x[2], x[3]) for x in done.values()}
        if len(sigs) != 1:
            return "honest parties obtained different signatures: %s (%s)" % (sorted(sigs), where)
        ys = {x[6] for x in done.values()}
        if len(ys) != 1:
            return "honest signers hold different public keys (%s)" % where
        c, sg, y = int(next(iter(sigs))[0]), int(next(iter(sigs))[1]), int(next(iter(ys)))
        log = st.get("sign_oracle", {})
        hx = lambda z: ("-" if z < 0 else "") + "%x" % abs(z)
        ok = False
        if 0 <= sg < q and y % p != 0:
            R = pow(g, sg, p) * pow(y, -c, p) % p
            key = hx(m) + "|" + hx(R) + "|"
            ok = key in log and log[key] == c
        if not ok:
            return "threshold signature (c,s) of a completed run does not satisfy c = H(m, g^s y^-c), 0 <= s < q (%s)" % where
        if any(x[4] != "1" for x in done.values()):
            return "the library's verifier refuses the signature the run produced (%s)" % where
        return None
    if op == "tsig.nts.verify":
        t = tag_of(a)
        a = [x for x in a if not x.startswith("tag:")]
        p, q, g, y, m, c, ss = (int(x) for x in a[:7])
        log = {}
        for e in plist(a[7]):
            k, v = e.split(":")
            log[bytes.fromhex(k).decode()] = int(v)
        ok = False
        if 0 <= ss < q and y % p != 0:
            R = pow(g, ss, p) * pow(y, -c, p) % p
            hx = lambda z: ("-" if z < 0 else "") + "%x" % abs(z)
            key = hx(m) + "|" + hx(R) + "|"
            ok = key in log and log[key] == c
        st["nts"] = st.get("nts", 0) + 1
        if r[0] not in ("0", "1"):
            return "Schnorr verifier failed with %s" % r[0]
        if (r[0] == "1") != ok:
            return "Schnorr verifier says %s, c = H(m, g^s y^-c) with 0 <= s < q says %s (%s)" % (r[0], int(ok), t)
        return None
    return None


# ---------------------------------------------------------------------------- C17
def pred_c17(line, st):
    """two-party coin flip, judged on the real library's trace (independent of the Lean model):
    commit-before-reveal order, acceptance iff valid opening of the earlier commitment, coin = sum"""
    op, a, r = toks(line)
    if op != "coin.flip2":
        return None
    a = [x for x in a if not x.startswith("tag:")]
    p, q, g, h, c, hc = (int(x) for x in a[:6])
    peer = plist(a[6])
    acts, res = plist(r[0]), r[1]
    st["runs"] = st.get("runs", 0) + 1
    # 1. order: the first action is a send (the commitment); every later send (the opening)
    #    comes after the receipt of a commitment that is a member of the order-q subgroup
    if not acts or not acts[0].startswith("s:"):
        return "first action is not the own commitment: %s" % acts[:2]
    C_own = int(acts[0][2:])
    if C_own != pow(g, c, p) * pow(h, hc, p) % p:
        return "the first value sent is not the commitment g^c h^hc of the drawn share"
    for i, x in enumerate(acts[1:], 1):
        if x.startswith("s:"):
            prev = acts[1]
            if not prev.startswith("r:"):
                return "share revealed (action %d) before any commitment of the peer was received: %s" % (i, acts)
            Cj = int(prev[2:])
            if not (0 < Cj < p and pow(Cj, q, p) == 1):
                return "share revealed after receiving a commitment outside the group"
    if len(acts) > 2 and acts[2].startswith("s:"):
        if [acts[2], acts[3]] != ["s:%d" % c, "s:%d" % hc]:
            return "opening sent is not the committed pair"
    # 2. acceptance iff a valid, in-range opening of the commitment received first
    ok = False
    want = None
    if len(peer) >= 3 and all(x != "x" for x in peer[:3]):
        Cj, aj, haj = int(peer[0]), int(peer[1]), int(peer[2])
        if 0 < Cj < p and pow(Cj, q, p) == 1 and abs(aj) < q and abs(haj) < q \
                and pow(g, aj, p) * pow(h, haj, p) % p == Cj:
            ok, want = True, (c + aj) % q
    if res.startswith("throw") or res == "fail":
        if ok:
            return "honest opening refused (%s)" % res
        st["refused"] = st.get("refused", 0) + 1
        return None
    if not ok:
        return "coin %s returned although the peer's opening does not match its commitment (peer %s)" % (res, peer)
    if int(res) != want:
        return "coin %s is not the sum of the shares mod q (%d)" % (res, want)
    st["accepted"] = st.get("accepted", 0) + 1
    return None


from pred_cgjkr import pred_cgjkr  # noqa: E402  (CGJKR classes: key generation, refresh, threshold DSS; real outputs only)

PROPS["C15"] = dict(
    module="TmcgProps.C15",
    areas=[("dkg", {"quick": 10, "thorough": 60}, ["--kind", "gen", "--par", "4"], "fast"),
           ("dkg", {"quick": 8, "thorough": 40}, ["--kind", "vss", "--par", "4"], "fast"),
           # the boundary configuration n = 7, t = 3 with wrong Feldman commitments in step 4: the only runs in
           # which Reconstruct interpolates four points (seeded change C15a)
           ("dkg", {"quick": 3, "thorough": 12}, ["--kind", "gen", "--n", "7", "--t", "3", "--dev", "7", "--first", "20", "--par", "4"], "fast"),
           ("cgjkr", {"quick": 12, "thorough": 36}, ["--kind", "gen", "--par", "4"], "fast")],
    obligations=[("Tmcg.C15." + n, "full") for n in ["refresh_keeps_secret", "refresh_keeps_key", "refresh_run_keeps_secret", "rvShare_checked",
                                                   "rv_share_matches_commitments", "gen_key_matches_secret", "xqual_agree", "honest_in_xqual"]]
                + [("Tmcg.C15." + n, "full") for n in ["qual_agree'", "honest_in_qual'", 'share_matches_vk_run', 'checkKey_run', 'share_check', 'share_check_iff', 'feldman_check', 'lagrange0_val', 'lagrange0_unique', 'interpolatePolynom_val', 'vss_reconstruct_honest', 'interpolate_secret', 'interpolate_secret_unique', 'share_matches_vk', 'checkKey_of_checks', 'vssRecv1_complains', 'vssRecv1_honest_dealer', 'genCheck4_sound', 'genReadAnswers_sound', 'genReadAnswers_answered', 'genResolveGo_share_valid', 'genResolve_qual', 'mkGrp_valid',
                                                          'generate_succeeds', 'key_agree', "share_matches_vk_run'", 'interpolate_run', 'binding_pair_dkg']],
    predicate=lambda line, st: (pred_cgjkr(line, st) if line.startswith(("prop.cgjkr.", "cgjkr.")) else pred_c15(line, st)),
    level_text="Theorems in Lean 4 about a model of PedersenVSS::Share/Reconstruct and GennaroJareckiKrawczykRabinDKG::Generate as synchronous rounds over n parties with coin lists and deviation scripts: "
               "for ALL scripts of at most t other parties every honest party ends with the same QUAL and no honest party is disqualified; shares of the committed polynomials satisfy the share equations (iff opening), "
               "the per-dealer checks a party performs give g^x_i = v_i and CheckKey, every t+1 shares interpolate to the same secret whose image is the product of the dealers' g^z_j (Lagrange/interpolation routines proved), "
               "an honest dealer's secret is reconstructed, a bad share is complained about, published shares are verified and unanswered complaints disqualify. "
               "Correspondence: the real classes as n = 2..7 forked parties over pipes with the real reliable broadcast (virtual clock), honest runs and 30 deviation kinds; the model recomputes every party's final state. "
               "An independent predicate checks agreement on QUAL/y/v_i, g^x_i = v_i, interpolation of every (t+1)-subset, VSS consistency on the real outputs. "
               "Run level: for all scripts of at most t others, every honest party that finishes without a reconstruction has g^x_i = v_i and CheckKey true. "
               "The adaptively secure classes (CGJKR RVSS/ZVSS/DKG): a refresh (sum of zero-sharings of the admitted dealers) leaves the secret interpolated from every (t+1)-subset and the key unchanged, on the abstract algebra and on the states the model's last refresh round computes; "
               "agreement on the qualified set of the key sharing for all scripts; shares match the verification values; the key is the image of the interpolated secret; real Generate+Refresh runs (28 deviation kinds) against the model and an independent predicate. "
               "Run level WITH reconstruction (step 4(c) rebuilding the polynomials of deviating parties), for all scripts of at most t others and under the explicit binding hypothesis on the commitments occurring in the run: every honest party's Generate returns true, all honest parties end with the same QUAL, public key and verification keys, CheckKey holds everywhere and any t+1 honest shares interpolate to the discrete logarithm of the key (generate_succeeds, key_agree, share_matches_vk_run', interpolate_run).",
    level_note=LEVEL_NOTE + " The reliable broadcast is abstracted to a consistent per-sender FIFO (property C14); synchrony as in the property's quantifier; n < 2^64.",
    assumptions=["synchronous-round abstraction of the broadcast and of time-outs (a late message = a missing message)",
                 "explicit binding hypothesis (BindingHypG: the in-range openings of a dealer's Pedersen commitments that occur in the run lie on one polynomial of degree <= t; a violation yields log_g h, binding_pair_dkg) for the run-level theorems with reconstruction; the zero constant term of an admitted refresh dealer is a hypothesis of the same kind",
                 "the harness uses at most min(t, (n-1)/3) deviating parties where the real reliable broadcast is involved"],
)

PROPS["C16"] = dict(
    module="TmcgProps.C16",
    areas=[("tsig", {"quick": 150, "thorough": 2000}, [], "san"),
           ("dkg", {"quick": 6, "thorough": 30}, ["--kind", "sign", "--par", "4"], "fast"),
           ("cgjkr", {"quick": 8, "thorough": 24}, ["--kind", "sign", "--par", "4"], "fast")],
    obligations=[("Tmcg.C16.dssVerify_iff", "full"), ("Tmcg.C16.dssVerify_textbook_signature", "full"), ("Tmcg.C16.dssVerify_range", "full"),
                 ("Tmcg.C16.ntsVerify_iff", "full"), ("Tmcg.C16.ntsVerify_textbook_signature", "full"), ("Tmcg.C16.ntsVerify_range", "full"),
                 ("Tmcg.C16.sign_ntsVerify", "full"), ("Tmcg.C16.sign_verifies", "full"), ("Tmcg.C16.sign_relation_checked", "full"), ("Tmcg.C16.sign_relation_honest", "full"),
                 ("Tmcg.C16.sign_dssVerify", "full"), ("Tmcg.C16.sign_dssVerify_code", "full"), ("Tmcg.C16.sign_r_eq", "full"),
                 ("Tmcg.C16.sign_run_trace", "full"), ("Tmcg.C16.sign_mu_agree", "full"), ("Tmcg.C16.sign_s_agree", "full"), ("Tmcg.C16.sign_final_valid", "full"),
                 ("Tmcg.C16.sign_honest_example", "full"), ("Tmcg.C16.sign_honest_example_verifies", "full"),
                 # run level (round 2).  The round-1 theorems sign_run_agree / sign_run_valid assumed `RunBinding`, which
                 # `bindsView_unsat` shows to be unsatisfiable (Pedersen commitments hide perfectly: for every first component
                 # some second one passes the share check) - they were vacuous and are no longer registered.  Their replacements
                 # anchor the binding hypothesis to the pairs that OCCUR in a party's inbox at its scheduled round (RunViews);
                 # partial: RunViews packages the computational binding hypothesis and the product relation (ZK soundness)
                 ("Tmcg.C16.bindsView_unsat", "full"), ("Tmcg.C16.sign_run_trace_sched", "full"),
                 ("Tmcg.C16.view_of_rows", "full"), ("Tmcg.C16.shareOk_opens", "full"), ("Tmcg.C16.pedBind_violation", "full"),
                 ("Tmcg.C16.prod_proof_extract", "full"), ("Tmcg.C16.prod_proof_simulate", "full"), ("Tmcg.C16.shEmit_spec", "full"),
                 ("Tmcg.C16.atAct_shRead_emit", "full"), ("Tmcg.C16.runViews_of_rows", "full"),
                 # non-vacuity: the full RunViews instance for the honest three-party run (p = 23, q = 11), the verdict obtained THROUGH sign_run_valid_views
                 ("Tmcg.C16.sign_run_views_nonvacuous", "full"), ("Tmcg.C16.tinyRun_is_this_run", "full"),
                 ("Tmcg.C16.sign_run_agree_views", "partial"), ("Tmcg.C16.sign_run_valid_views", "partial")],
    predicate=lambda line, st: (pred_cgjkr(line, st) if line.startswith(("prop.cgjkr.", "cgjkr.")) else pred_c16(line, st)),
    level_text="Theorems in Lean 4: the models of CanettiGennaroJareckiKrawczykRabinDSS::Verify and GennaroJareckiKrawczykRabinNTS::Verify return true exactly on the textbook DSA resp. Schnorr acceptance condition "
               "(range conditions and verification equation written in ZMod p, independent of the model's routines) for every input, and accept every textbook signature. Correspondence: the real verifiers on textbook "
               "signatures made by the harness with a known key and on the range-boundary / mutation catalogue (r,s ± q, negated, 0, q, swapped, other key, key outside the group, forged for key 1), compared with the model "
               "and judged by an independent Python evaluation of the equations. Threshold Schnorr signing (GJKR NTS): theorems that the per-share checks an honest party performs, c = H(m, prod r_j) and s = sum s_j make the combined (c, s) accepted by the verifier model; "
               "correspondence and predicate on real signing runs (n forked parties, bad/missing shares of up to t signers): all honest parties that complete hold the same (c, s), it satisfies the textbook equation and the library's verifier accepts it. "
               "Threshold DSS (CGJKR): the (r, s) a completed Sign reconstructs is accepted by the DSA verifier model (theorem on the reconstructed values); real runs — DSS Generate, Sign, Refresh, Sign again, full and reduced signer sets, messages 0, 1, q-1, q, random, deviating signers — judged by the textbook DSA equation and agreement of all honest parties. "
               "DSS::Sign itself is modelled action by action (joint generation of k and a with the back-up sharings, product proofs, reconstructions, mu, r, s) and compared with the real class on a running digest of everything a party hands to the network (34 checkpoints per call), incl. deviating signers, reduced signer sets and runs after a refresh. "
               "Run level for every script of the deviating signers: all honest parties that complete hold the same (r, s) and the verifier model accepts it (sign_run_agree_views, sign_run_valid_views) — conditional on RunViews: at its scheduled rounds each honest party's own share and every in-range pair in its inbox that passes its check lie on one polynomial of degree <= t whose constant term is k a resp. k (m + x r) (registered as partial). view_of_rows reduces this, for one view, to Pedersen rows + binding of one explicit commitment per position with respect to the pairs that occur (a violation yields log_g h: pedBind_violation) + the product relation of the signers' sharings, which is exactly what the product proofs of steps 1c/1d/2c/2d give with soundness error 1/q (prod_proof_extract, prod_proof_simulate: not derivable from one deterministic run). The round-1 hypothesis RunBinding was unsatisfiable (bindsView_unsat): the theorems that used it were vacuous and are no longer registered. A complete honest run (p = 23, q = 11, n = 3, t = 1) is evaluated by the kernel.",
    level_note=LEVEL_NOTE + " The hash of the Schnorr verifier is an oracle parameter (answers logged from tmcg_mpz_shash).",
    assumptions=["partial: the run-level DSS theorems sign_run_agree_views / sign_run_valid_views assume RunViews (per honest party and scheduled round: own share and occurring checked pairs on one polynomial of degree <= t with the right constant term; agreement on the nested key a_dkg->y = g^a): binding of Pedersen commitments is computational, the product relation and the nested key rest on the soundness of Sigma-protocols (error 1/q); NTS signing modelled on top of the synchronous DKG model",
                 "observation, not a violation: signing the same message twice on one broadcast object reuses the broadcast identifiers and Sign returns false at every party (the harness gives every library call its own enclosing identifier)",
                 "Sign never tests r != 0 / s != 0: with probability about 2/q a completed run outputs a pair Verify refuses (hypothesis 0 < r, 0 < s in the theorem)"],
)
from pred_c17b import pred_c17b  # noqa: E402  (multi-party flip, judged on the real outputs)


def pred_c17_all(line, st):
    if line.startswith(("prop.jl.", "jl.")):
        return pred_c17b(line, st)
    return pred_c17(line, st)


PROPS["C17"] = dict(
    module="TmcgProps.C17",
    areas=[("coin", {"quick": 300, "thorough": 3000}, [], "san"),
           ("jl", {"quick": 26, "thorough": 60}, ["--par", "4"], "san")],
    obligations=[("Tmcg.C17.flip2_agree", "full"), ("Tmcg.C17.commit_before_reveal", "full"),
                 ("Tmcg.C17.commitment_hides", "full"), ("Tmcg.C17.accept_iff", "full"),
                 ("Tmcg.C17.bad_opening_rejected", "full"), ("Tmcg.C17.commitment_binds", "full"),
                 ("Tmcg.C17.flip_agree", "full"), ("Tmcg.C17.flip_is_sum", "full"), ("Tmcg.C17.bad_opening_reconstructed", "full"),
                 ("Tmcg.C17.reveal_after_commitments", "full"), ("Tmcg.C17.no_opening_before_resolve", "full"),
                 ("Tmcg.C17.opening_only_in_round_4", "full"), ("Tmcg.C17.opening_is_committed_pair", "full"),
                 ("Tmcg.C17.private_shares_after_commitments", "full")],
    predicate=pred_c17_all,
    level_text="Theorems in Lean 4 about the two-party coin flip as an I/O automaton: both honest parties return the sum of the shares mod q for all coins; for every peer behaviour the own share is "
               "sent only after a group-member commitment of the peer was received (commit before reveal), the first message hides the share perfectly, a coin is returned iff the peer opened exactly "
               "its earlier commitment in range, and two different openings of one commitment give log_g h (binding). Correspondence: real Flip_twoparty in both roles against a scripted peer "
               "(honest, wrong opening, out-of-range, non-member commitment, withheld/unparsable lines) with the byte-level order of reads and writes recorded. "
               "Multi-party flip over the joint verifiable secret sharing (n parties, up to t deviating, all deviation scripts): all honest parties return the same coin, it is the sum mod q of the committed shares of the qualified parties, "
               "an opening that does not match the commitment is replaced by the reconstructed committed share, and no honest party opens before the sharing phase (all commitments delivered, complaints resolved) is over. "
               "Correspondence: real Flip as n = 2..7 forked parties over pipes with the real reliable broadcast, 24 planned cases covering every deviation kind per run.",
    level_note=LEVEL_NOTE,
    assumptions=["multi-party part: synchronous-round abstraction (reliable broadcast as consistent per-sender FIFO), explicit binding hypothesis on the Pedersen commitments (BindingHyp), one Flip per channel identifier",
                 "binding is computational: reduction to the discrete logarithm of h to base g, not a probability bound"],
)


# ---------------------------------------------------------------------------- C18
def pred_c18(line, st):
    """oblivious transfer, judged on the real library's runs (independent of the Lean model)"""
    op, a, r = toks(line)
    t = tag_of(a)
    if op == "prop.ot.deliver":
        N, sigma, want, got = a[0], a[1], a[2], a[3]
        st["deliver"] = st.get("deliver", 0) + 1
        if r[0] == "WRONG" or (r[0] == "ok" and want != got):
            return "chooser (N=%s, index %s, variant %s) output %s, the message at that index is %s" % (N, sigma, t.split(":")[0], got, want)
        if r[0] == "aborted" and t.endswith("expect-ok"):
            return "honest run (N=%s, index %s, variant %s) aborted although the chooser's exponents are distinct" % (N, sigma, t.split(":")[0])
        return None
    if op == "prop.ot.unchosen":
        st["unchosen"] = st.get("unchosen", 0) + 1
        if r[0] == "EQUAL" and t.endswith("exc0"):
            return "ciphertext %s (not chosen, index %s of N=%s, variant %s) decrypts to its message under the chooser's own secrets" % (a[2], a[1], a[0], t.split(":")[0])
        return None
    if op == "prop.ot.replay":
        if r[0] != "same":
            return "harness: the chooser's first move differs between the two runs with the same coins"
        return None
    if op == "ot.send" and t.startswith("bad:"):
        st["badquery"] = st.get("badquery", 0) + 1
        if r[0] != "[]":
            return "sender wrote %s on a malformed query (%s)" % (r[0][:60], t)
        if r[1] == "ok":
            return "sender accepted a malformed query (%s)" % t
        return None
    return None


PROPS["C18"] = dict(
    module="TmcgProps.C18",
    areas=[("ot", {"quick": 24, "thorough": 30}, [], "san")],
    obligations=[("Tmcg.C18.ot12_correct", "full"), ("Tmcg.C18.ot12_collision", "full"), ("Tmcg.C18.ot1N_correct", "full"),
                 ("Tmcg.C18.ot1N_collision", "full"), ("Tmcg.C18.ot1N_opt_correct", "full"), ("Tmcg.C18.bitlen_of_lt_q", "full"),
                 ("Tmcg.C18.sender_aborts_on_bad_query", "full"), ("Tmcg.C18.unchosen_not_decrypted", "full"),
                 ("Tmcg.C18.send1N_silent", "full"), ("Tmcg.C18.sendOpt_silent", "full"), ("Tmcg.C18.send12_missing", "full")],
    predicate=pred_c18,
    level_text="Theorems in Lean 4 about models of sender and chooser of the 1-of-2, 1-of-N and optimised 1-of-N protocols (functions of the drawn coins and the peer's lines): for every N>=2, index, message vector "
               "in the group and all coins the chooser outputs the message at its index (1-of-2/1-of-N: whenever the chooser's exponents are pairwise distinct; otherwise the sender refuses, proved too); "
               "a query with a non-member or coinciding elements is refused with nothing written; ciphertext i != sigma opens under the chooser's secrets to M_i * g^((c_i-ab) s_i), equal to M_i only on the explicit exceptional coins. "
               "Correspondence: real sender and chooser run against each other (every index, N up to 8 quick / 64 thorough, all three variants), malformed first moves and replies, model recomputes every line.",
    level_note=LEVEL_NOTE,
    assumptions=["1-of-2 / 1-of-N completeness holds for coins with pairwise distinct exponents (the sender refuses the honest chooser otherwise: probability <= N^2/2q)",
                 "privacy of the unchosen messages is stated as the exact algebraic value the chooser can compute, not as a computational indistinguishability claim"],
)


# ---------------------------------------------------------------------------- C19
def hexb(s):
    return b"" if s == "-" else bytes.fromhex(s)


def crc24_ref(data):
    crc = 0xB704CE
    for b in data:
        crc ^= b << 16
        for _ in range(8):
            crc <<= 1
            if crc & 0x1000000:
                crc ^= 0x1864CFB
    return crc & 0xFFFFFF


def len_ref(n):
    if n < 192:
        return bytes([n])
    if n < 8384:
        v = n - 192
        return bytes([(v >> 8) + 192, v & 0xFF])
    return bytes([255]) + (n & 0xFFFFFFFF).to_bytes(4, "big")


def pred_c19(line, st):
    import base64
    op, a, r = toks(line)
    if not op.startswith("pgp."):
        return None
    if op == "pgp.r64.enc":
        data = hexb(a[1]); want = base64.b64encode(data).decode()
        if a[0] == "1":
            want = "\r\n".join(want[i:i + 64] for i in range(0, len(want), 64))
        if hexb(r[0]).decode("latin1") != want:
            return "radix-64 output differs from RFC 4880 / base64 for %d octets" % len(data)
        st["r64"] = (r[0], a[1])
    elif op == "pgp.r64.dec" and st.get("r64") and st["r64"][0] == a[0]:
        if r[0] != st["r64"][1]:
            return "radix-64 round trip failed"
    elif op == "pgp.crc24":
        if hexb(r[0]) != crc24_ref(hexb(a[0])).to_bytes(3, "big"):
            return "CRC-24 differs from the RFC 4880 reference"
    elif op == "pgp.len.enc":
        n = int(a[0])
        if n < 2 ** 32 and hexb(r[0]) != len_ref(n):
            return "body length %d encoded as %s" % (n, r[0])
        st["len"] = (r[0], n)
    elif op == "pgp.len.dec" and st.get("len") and a[0] == "1" and a[2].startswith(st["len"][0]) and st["len"][1] < 2 ** 32:
        if a[2] == st["len"][0] and (int(r[1]) != st["len"][1] or r[2] != "0"):
            return "body length %d does not round-trip" % st["len"][1]
    elif op == "pgp.mpi.enc":
        v = int(a[0])
        if v < 2 ** 65535:
            want = v.bit_length().to_bytes(2, "big") + (v.to_bytes((v.bit_length() + 7) // 8, "big") if v else b"")
            if hexb(r[0]) != want:
                return "MPI of a %d-bit value is not the RFC 4880 encoding" % v.bit_length()
    elif op == "pgp.s2k.count":
        c = int(a[0])
        if int(r[0]) != (16 + (c & 15)) << ((c >> 4) + 6):
            return "iterated S2K count octet %d decodes to %s" % (c, r[0])
    elif op == "pgp.s2k.key":
        # independent reference: RFC 4880 section 3.7.1.2/3.7.1.3 on top of hashlib
        import hashlib
        it, c, sklen, hlen = int(a[0]), int(a[1]), int(a[2]), int(a[3])
        salt, pw = hexb(a[4]), hexb(a[5])
        alg = {"alg2": "sha1", "alg8": "sha256", "alg9": "sha384", "alg10": "sha512", "alg11": "sha224"}[tag_of(a)]
        key = hexb(r[1])
        st["s2k_cases"] = st.get("s2k_cases", 0) + 1
        if len(salt) != 8:
            if key: return "S2KCompute produced a key from a salt of %d octets" % len(salt)
            return None
        data = salt + pw
        total = len(data)
        if it:
            total = max(total, (16 + (c & 15)) << ((c >> 4) + 6))
            if len(data) > (16 + (c & 15)) << ((c >> 4) + 6): st["s2k_long"] = st.get("s2k_long", 0) + 1
        stream = (data * (total // len(data) + 1))[:total]
        want = b""; j = 0
        while len(want) < sklen:
            want += hashlib.new(alg, b"\0" * j + stream).digest(); j += 1
        if key != want[:sklen]:
            return ("S2K key differs from RFC 4880 3.7.1.%d (%s, count octet %d, %d octets of salt+passphrase, key length %d)"
                    % (3 if it else 2, alg, c, len(data), sklen))
    elif op == "pgp.armor.enc":
        st.setdefault("armor", {})[r[0]] = (a[0], a[3], a[1])
    elif op == "pgp.armor.dec" and tag_of(a) == "orig" and a[0] in st.get("armor", {}):
        typ, data, comment = st["armor"][a[0]]
        ctext = hexb(comment)
        clean = (b"\n" not in ctext) and (b"-----" not in ctext.replace(b" ", b"").replace(b"\t", b"").replace(b"\r", b""))
        if clean and (r[0] != typ or r[1] != data):
            return "armor emitted for %d octets of type %s does not decode to itself" % (len(hexb(data)), typ)
    return None


from pred_c19b import pred_c19b, c19b_final  # noqa: E402  (packet emitters, fingerprints, key ids)


from pred_gpgx import pred_gpgx, gpgx_final  # noqa: E402  (GnuPG cross-check, area gpgx)


def pred_c19_all(line, st):
    if line.startswith("prop.gpgx"):
        return pred_gpgx(line, st)
    if line.startswith(("pgpenc.", "prop.pgpenc")):
        return pred_c19b(line, st)
    return pred_c19(line, st)


PROPS["C19"] = dict(
    module="TmcgProps.C19",
    areas=[("pgpcodec", {"quick": 120, "thorough": 1500}, ["--s2k-sample"], "san"),
           ("pgpenc", {"quick": 12, "thorough": 60}, [], "san"),
           # GnuPG 2.2 as the second judge the property names: keys, secret keys and armor the library emits are imported /
           # parsed / de-armored by gpg (fingerprints and key IDs compared), tampered ones refused (tools/pred_gpgx.py)
           ("gpgx", {"quick": 1, "thorough": 6}, ["--kinds", "pubkey,seckey,armor"], "san")],
    obligations=[("Tmcg.C19.radix64_roundtrip", "full"), ("Tmcg.C19.radix64_lines_le_76", "full"),
                 ("Tmcg.C19.crc24_spec", "full"), ("Tmcg.C19.len_roundtrip", "full"),
                 ("Tmcg.C19.len_forms_disjoint", "full"), ("Tmcg.C19.partial_len_pow2", "full"),
                 ("Tmcg.C19.mpi_roundtrip", "full"), ("Tmcg.C19.armor_roundtrip", "full"),
                 ("Tmcg.C19.armor_rejects_bad_checksum", "full"), ("Tmcg.C19.armor_empty_roundtrip_instances", "full"), ("Tmcg.C19.s2k_count_table", "full"),
                 ("Tmcg.C19.string_roundtrip", "full"),
                 ("Tmcg.C19.s2k_full_input_once", "full"), ("Tmcg.C19.s2k_feed_length", "full"),
                 ("Tmcg.C19.s2k_feed_periodic", "full"), ("Tmcg.C19.s2k_context_preload", "full"),
                 ("Tmcg.C19.s2k_key_length", "full")]
                + [("Tmcg.C19." + n, "full") for n in ['pub_roundtrip', 'sec_roundtrip', 'secProt_roundtrip', 'pkesk_roundtrip', 'sig_roundtrip', 'prepared_roundtrip', 'uid_roundtrip', 'lit_roundtrip', 'sed_roundtrip', 'seipd_roundtrip', 'mdc_roundtrip', 'aead_roundtrip', 'packetDecodeE_packet', 'packet_header', 'header_shortest', 'pubEncode_header', 'secEncode_header', 'pkeskEncode_header', 'sigEncode_header', 'uidEncode_header', 'litEncode_header', 'sedEncode_header', 'seipdEncode_header', 'aeadEncode_header', 'mdcEncode_header', 'sedEncode_eq', 'seipdEncode_eq', 'aeadEncode_eq', 'fprFrame_injective', 'fprFrame_versions_disjoint', 'fprFrame_v4', 'fprFrame_v5', 'keyid_v4', 'keyid_v5', 'issuerSubs_keyid', 'subSplit_encode', 'area_roundtrip', 'parseSubs_recognised', 'areaOk_of_recognised', 'areaOk_of_allFine', 'selfSubs_fine', 'revokerSubs_fine', 'detachedSubs_fine', 'detachedV5Subs_fine', 'revocationSubs_fine', 'certSubs_fine', 'timestampSubs_fine', 'attestSubs_fine', 'prepSelf_eq', 'prepCert_eq', 'prepDetachedV5_eq', 'takeMpi_encode', 'takeMpis_encode', 'matDecode_encode', 'exampleRsa_wf', 'exampleEcdh_wf', 'exampleSec_wf', 'examplePkesk_wf', 'exampleSig_wf', 'exampleRsa_roundtrip', 'exampleSig_roundtrip']],
    predicate=pred_c19_all, final=lambda st: ((c19b_final(st) if any(k.startswith("pe") or k.startswith("c19b") for k in st) else None)
                                              or gpgx_final(st, kinds=("pubkey", "seckey", "armor", "s2k"))),
    level_text="Lean 4 theorems about a model of the OpenPGP encodings written from RFC 4880: radix-64 round trip and line length, CRC-24 = polynomial division with the generated constants, body lengths (all n < 2^32, forms disjoint, partial lengths powers of two), MPIs, strings, armor round trip and checksum rejection for the four armor types, all 256 iterated-S2K count octets, the octet stream every S2K hash context is fed (full salt+passphrase at least once, periodic, count or input length, j zero octets of preload) and the key length. "
               "Correspondence: the real static methods vs the model byte for byte (encoders on all boundary sizes; decoders also on arbitrary and mutated input); the predicate judges emitted octets by an independent reference (Python base64, a reference CRC-24, the RFC formulas). "
               "Partial: the packet emitters (signature, key, PKESK, SKESK, literal, SEIPD, AEAD ...), fingerprints/key ids are not modelled yet (the S2K streams are: the digests themselves are libgcrypt's, checked against hashlib by the predicate); GnuPG as second oracle was used once by hand (gpg --dearmor accepted the emitted armors) and is not part of the check.",
    level_note=LEVEL_NOTE,
    assumptions=["partial: packet emitters beyond the primitive encodings are not yet covered",
                 "the armor round trip of an EMPTY octet string (finding F14, repaired) is proved for instances only and otherwise covered by the correspondence and the predicate"],
)

# ---------------------------------------------------------------------------- C20
# C20 predicate on the `prop.pgpmsg` lines of the pgpmsg area (verdicts of the real library only).
# Conventions of /verif/tools/props.py: toks(line) -> (op, args, rhs); tag_of(args); return None or a message;
# `st` collects coverage (see c20_coverage below for an end-of-run check).
#
#   prop.pgpmsg sym <what> algo=<a> mode=<m> cs=<c> len=<n> tag:<class> => ok|refused <eq>
#   prop.pgpmsg sig <key> v<ver> <type> hash=<h> len=<n> tag:<class> => ok|refused same=<b>
#   prop.pgpmsg keyblock <key> hash=<h> tag:<class> => ok|refused same=<b>
#   prop.pgpmsg aead-nonces mode=<m> cs=<c> len=<n> => calls=<k> distinct=<d>      (emitted only when nonces repeat)
#   prop.pgpmsg sigtime|filehash|sig-made …                                        informational


def pred_c20(line, st):
    op, a, r = toks(line)
    if op != "prop.pgpmsg" or not a or not r:
        return None
    kind, tag = a[0], tag_of(a)
    cov = st.setdefault("c20", {"sym": set(), "sig": set(), "classes": set()})
    if kind == "aead-nonces":
        return "AEAD nonces repeat within one message (%s): %s" % (" ".join(a[1:]), " ".join(r))
    if kind == "sym":
        kv = dict(x.split("=", 1) for x in a[2:] if "=" in x and not x.startswith("tag:"))
        what = "%s algo=%s mode=%s cs=%s len=%s" % (a[1], kv.get("algo"), kv.get("mode"), kv.get("cs"), kv.get("len"))
        verdict, eq = r[0], (r[1] if len(r) > 1 else "0")
        cov["classes"].add("sym:" + tag.split(":")[0])
        if tag == "honest-enc-failed":
            return "encryption of an honest message failed (%s)" % what
        if tag.startswith("honest"):
            cov["sym"].add((a[1], kv.get("algo"), kv.get("mode"), kv.get("cs")))
            if verdict != "ok" or eq != "1":
                return "honest message (%s, %s) did not decrypt to the plaintext: %s %s" % (what, tag, verdict, eq)
            return None
        if tag == "empty":          # SymmetricEncryptAEAD refuses the empty plaintext (a literal packet is never empty)
            return None if verdict == "refused" else "empty plaintext accepted (%s)" % what
        # every other class is a change of cipher text, tag, associated data, IV, key, framing, or missing integrity protection
        if verdict != "refused":
            return "tampered / unprotected message accepted (%s, %s)" % (what, tag)
        return None
    if kind == "sig":
        what = " ".join(a[1:-1])
        verdict, same = r[0], (r[1] if len(r) > 1 else "same=0")
        cov["classes"].add("sig:" + tag.split(":")[0])
        if tag.startswith("honest"):
            cov["sig"].add((a[1], a[2], a[3]))
            return None if verdict == "ok" else "honest signature refused (%s, %s)" % (what, tag)
        if tag.startswith("flip:sig-unhashed:"):
            # a field of the packet that is neither hashed nor the signature value (V3: key ID, public-key algorithm octet;
            # V4/V5: unhashed subpacket area): the property demands nothing; the left 16 bits must still fail the quick check
            if tag.startswith("flip:sig-unhashed:left16:") and verdict == "ok":
                return "signature with altered left 16 bits accepted (%s, %s)" % (what, tag)
            return None
        if verdict == "ok":
            # a changed packet that still parses to the same signature (MPI bit count slack, re-synchronised header)
            # is another encoding of it, not an altered signature
            if tag.startswith("flip:sig-") and same == "same=1":
                return None
            return "altered / invalid signature accepted (%s, %s)" % (what, tag)
        return None
    if kind == "sig-unhashed":
        # one more subpacket in the UNHASHED area of a library-made signature / key block: nothing may change
        what = " ".join(a[1:-1])
        cov["classes"].add("sig-unhashed:" + a[3])
        cov.setdefault("unhashed", set()).add((a[3], a[4]))
        before, after = r[0], (r[1] if len(r) > 1 else "?")
        if a[3] in ("expired", "olderthankey", "future") and before != "refused":
            return "signature that must be refused was accepted before any change (%s)" % what
        if a[3] == "valid" and before != "ok":
            return "valid signature refused (%s)" % what
        if a[3].startswith("keyblock") and not before.startswith("ok:valid=1"):
            return "honest key block refused (%s): %s" % (what, before)
        if after != before:
            return "unhashed subpacket changed the verdict / key properties (%s): %s -> %s" % (what, before, after)
        return None
    if kind == "keyblock":
        verdict, same = r[0], (r[1] if len(r) > 1 else "same=0")
        cov["classes"].add("keyblock:" + tag.split(":")[0])
        if tag == "honest":
            return None if verdict == "ok" else "honest key block refused (%s)" % a[1]
        if verdict == "ok" and not (tag.startswith("flip:sig") and same == "same=1"):
            return "altered key block accepted (%s, %s)" % (a[1], tag)
        return None
    return None


def c20_coverage(st, thorough=False):
    """end-of-run check of the quantifier: returns None or a message"""
    cov = st.get("c20")
    if not cov:
        return "no prop.pgpmsg lines"
    need = {"sym:honest", "sym:flip", "sym:reorder", "sym:drop-final", "sym:truncate", "sym:ad", "sym:iv", "sym:key",
            "sym:nomdc", "sym:wrongmdc", "sig:honest", "sig:flip", "sig:expired", "sig:future", "sig:olderthankey",
            "sig:weakhash", "sig:otherkey", "keyblock:honest", "keyblock:flip",
            "sig-unhashed:valid", "sig-unhashed:expired", "sig-unhashed:olderthankey", "sig-unhashed:future",
            "sig-unhashed:keyblock-self", "sig-unhashed:keyblock-subkey"}
    missing = need - cov["classes"]
    if missing:
        return "classes not exercised: %s" % " ".join(sorted(missing))
    aead = {(alg, m, cs) for (w, alg, m, cs) in cov["sym"] if w == "aead"}
    for m in ("eax", "ocb"):
        if {int(cs) for (_, mm, cs) in aead if mm == m} < set(range(0, 22)):
            return "not every chunk size octet 0..21 exercised for %s" % m
        if {alg for (alg, mm, _) in aead if mm == m} < {"7", "8", "9", "10", "11", "12", "13"}:
            return "not every 128-bit-block cipher exercised for %s" % m
    subs = {x.split("=")[1].split(":")[0] for (_, x) in cov.get("unhashed", set())}
    if subs < {"2", "3", "9", "27", "30", "11", "21", "22", "7", "4", "29", "12", "20", "16", "33"}:
        return "not every subpacket type of the catalogue appended to the unhashed area"
    if {alg for (w, alg, m, cs) in cov["sym"] if w == "seipd"} < {"2", "3", "4", "7", "8", "9", "10", "11", "12", "13"}:
        return "not every cipher exercised with MDC"
    keys = {k for (k, v, t) in cov["sig"]}
    if keys < {"rsa", "dsa160", "dsa256", "ecdsa", "eddsa"}:
        return "not every signing algorithm exercised"
    if {v for (k, v, t) in cov["sig"]} < {"v3", "v4", "v5"}:
        return "not every signature version exercised"
    return None


PROPS["C20"] = dict(
    module="TmcgProps.C20",
    areas=[("pgpmsg", {"quick": 20, "thorough": 60}, [], "san"),
           # GnuPG 2.2 verifies the library's detached signatures (binary / text, RSA / DSA, five hashes, 26 document classes)
           # and decrypts its symmetric and public-key messages; every tampered artefact must be refused by gpg AND the library
           ("gpgx", {"quick": 1, "thorough": 5}, ["--kinds", "detsig,symenc,pkenc"], "san")],
    obligations=[("Tmcg.C20." + n, "full") for n in ['cfb_decrypt_encrypt', 'sym_roundtrip', 'mdc_detects', 'no_mdc_refused', 'sed_packet_refused', 'seipd_message_roundtrip', 'aead_decrypt_encrypt', 'aead_message_roundtrip', 'aead_empty_refused', 'aead_tamper_evident', 'aead_reorder_detected', 'aead_truncation_detected', 'aead_ad_bound', 'aead_nonces_distinct', 'validity_logic', 'validity_expired_flag', 'weak_hash_refused', 'unknown_hash_refused', 'left16_check', 'left16_pass', 'verifySig_digest', 'hash_input_injective_binary', 'hash_input_injective_text', 'hash_input_injective_standalone', 'hash_input_injective_key', 'hash_input_injective_key2', 'hash_input_injective_cert', 'sigTrailer_inj', 'textCanon_crlf',
                                                   'unhashed_only_issuer', 'unhashed_irrelevant', 'unhashed_irrelevant_valid', "unhashed_agree'", 'unhashed_agree_counterexample',
                                                   'hashed_wins_issuer', 'hashed_wins_fingerprint', 'hashed_wins_embedded']],
    predicate=lambda line, st: (pred_gpgx(line, st) if line.startswith("prop.gpgx") else pred_c20(line, st)),
    final=lambda st: c20_coverage(st) or gpgx_final(st, kinds=("detsig", "symenc", "pkenc")),
    level_text="Theorems in Lean 4 with the primitives as parameters: CFB (modelled on a block function) decrypts what it encrypts for every block function; exact acceptance condition of the MDC check; "
               "data without integrity protection is refused; AEAD chunking round trip for every length and chunk size, and under an ideal AEAD any accepted string is the sender's ciphertext (reorder, truncation, dropped final tag, "
               "other associated data refused); chunk nonces distinct; exact characterisation of signature validity (expiry, key age, 25 h future tolerance, weak hashes), the left-16-bit check, "
               "injectivity of every hash-input construction (document, text, standalone, key, certification; v3/v4/v5 trailers); the subpacket areas of a v4/v5 signature: the unhashed area (not covered by the signature) influences nothing but issuer key id, issuer fingerprint and embedded signatures, and those only where the hashed area left them unset, hence the validity verdict is independent of it. Correspondence: real encrypt/decrypt/sign/verify (all ciphers x MDC/EAX/OCB x chunk sizes 0..21 x "
               "lengths around chunk boundaries; RSA, DSA, ECDSA, EdDSA keys; v3/v4/v5 signatures) with byte flips, reorders, truncations, clock and time variations; model recomputes every call from the logged primitive answers.",
    level_note=LEVEL_NOTE + " Block cipher, SHA-1/hash, AEAD seal/open and public-key verification are oracle parameters (logged from libgcrypt through interposed entry points); gpg cross-check is not done (no gpg in the sandbox run).",
    assumptions=["tamper evidence is relative to the primitives: MDC = exact acceptance condition (altered ciphertext accepted only on a SHA-1 coincidence), AEAD = consequences of an ideal AEAD hypothesis, signatures = injective hash input (collision reduction)",
                 "MessageParse is modelled for tags 9, 18, 19, 20, 12 and unknown tags only; PKESK (RSA, ElGamal) verdict-only; ECDH not exercised; GnuPG 2.2.40 cross-check (area gpgx) for the RFC 4880 subset: v4 RSA/DSA/ElGamal, SEIPD+MDC, no AEAD-draft packets"],
)
