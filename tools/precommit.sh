#!/bin/bash
# builds everything the registered checks need (what MANIFEST.setup_cmd does); run before committing
cd "$(dirname "$0")/.." && python3 tools/setup.py 2>&1 | tail -2
