#!/usr/bin/env python3
"""Content-hashed rebuild of /repo/src (sanitizer build) and of the harness.

Every call preprocesses each translation unit of libTMCG from /repo's *current
working tree* (g++ -E), hashes the preprocessed text together with the flags,
and compiles only the units whose hash is not in the cache
(/verif/.cache/obj/<hash>.o).  Nothing is taken from /repo/src/.libs.

Two flavours:
  san  : -O1 -g1 -fsanitize=address,undefined -fno-sanitize-recover=all
  fast : -O2   (no sanitizers; used for volume runs where ASan's slowdown hurts)
Both with -DLIBTMCG_VERIF (the reserved hook guard).
"""
import fcntl
import hashlib
import os
import re
import subprocess
import sys
from concurrent.futures import ThreadPoolExecutor

HERE = os.path.dirname(os.path.abspath(__file__))
VERIF = os.path.dirname(HERE)
REPO = os.environ.get("VERIF_REPO", "/repo")
CACHE = os.path.join(VERIF, ".cache")
OBJ = os.path.join(CACHE, "obj")
BIN = os.path.join(CACHE, "bin")
GUARD = "LIBTMCG_VERIF"

COMMON = ["-DHAVE_CONFIG_H", "-D" + GUARD, "-I" + REPO, "-I" + os.path.join(REPO, "src"),
          "-I" + os.path.join(VERIF, "harness"), "-w"]
FLAVOURS = {
    "san": ["-O1", "-g1", "-fno-omit-frame-pointer", "-fsanitize=address,undefined",
            "-fno-sanitize-recover=all",
            # loads of out-of-range values into C++ enums (bytes cast to the OpenPGP algorithm enums) are
            # undefined behaviour on paper but neither a memory error nor an abort: not a C12 matter
            "-fno-sanitize=enum"],
    "fast": ["-O2"],
}
LIBS = ["-lgcrypt", "-lgpg-error", "-lgmp", "-ldl", "-lpthread"]


def repo_sources():
    """The .cc files of libTMCG_la_SOURCES, read from src/Makefile.am of the current tree."""
    txt = open(os.path.join(REPO, "src", "Makefile.am")).read()
    m = re.search(r"libTMCG_la_SOURCES\s*=(.*?)\n\s*\n", txt, re.S)
    if not m:
        raise SystemExit("build_repo: cannot find libTMCG_la_SOURCES in src/Makefile.am")
    names = re.findall(r"([A-Za-z0-9_\-]+\.cc)", m.group(1))
    if len(names) < 20:
        raise SystemExit("build_repo: suspiciously few sources: %r" % names)
    return [os.path.join(REPO, "src", n) for n in names]


def _compile_one(src, flavour):
    flags = COMMON + FLAVOURS[flavour]
    if src.startswith(os.path.join(VERIF, "harness")):
        flags = flags + ["-fno-access-control"]  # drivers read private members (x_i, d, ...)
    pre = subprocess.run(["g++", "-E", "-P"] + flags + [src], capture_output=True)
    if pre.returncode != 0:
        return src, None, pre.stderr.decode(errors="replace")
    h = hashlib.sha256()
    h.update(" ".join(flags).replace(REPO, "$REPO").encode())
    h.update(b"\0")
    h.update(pre.stdout)
    key = h.hexdigest()[:32]
    obj = os.path.join(OBJ, key + ".o")
    if not os.path.exists(obj):
        tmp = obj + ".tmp%d" % os.getpid()
        cc = subprocess.run(["g++", "-c"] + flags + [src, "-o", tmp], capture_output=True)
        if cc.returncode != 0:
            return src, None, cc.stderr.decode(errors="replace")
        os.replace(tmp, obj)
    else:
        try:
            os.utime(obj, None)
        except OSError:
            pass
    return src, obj, ""


def _prune(d, keep):
    """keep the `keep` most recently used files of a cache directory (under the build lock)"""
    try:
        fs = sorted((os.path.join(d, f) for f in os.listdir(d)), key=os.path.getmtime, reverse=True)
        for f in fs[keep:]:
            os.unlink(f)
    except OSError:
        pass


def build(harness_sources, out_name, flavour="san", quiet=False):
    """Compile repo + harness sources, link BIN/out_name; returns path."""
    os.makedirs(OBJ, exist_ok=True)
    os.makedirs(BIN, exist_ok=True)
    lock = open(os.path.join(CACHE, "build.lock"), "w")
    fcntl.flock(lock, fcntl.LOCK_EX)
    try:
        srcs = repo_sources() + list(harness_sources)
        with ThreadPoolExecutor(max_workers=os.cpu_count() or 8) as ex:
            res = list(ex.map(lambda s: _compile_one(s, flavour), srcs))
        errs = [(s, e) for s, o, e in res if o is None]
        if errs:
            for s, e in errs:
                sys.stderr.write("build_repo: compile failed: %s\n%s\n" % (s, e[-4000:]))
            raise SystemExit(2)
        objs = [o for _, o, _ in res]
        h = hashlib.sha256(("\n".join(objs) + flavour).encode()).hexdigest()[:16]
        exe = os.path.join(BIN, "%s-%s-%s" % (out_name, flavour, h))
        if not os.path.exists(exe):
            tmp = exe + ".tmp%d" % os.getpid()
            ld = subprocess.run(["g++"] + FLAVOURS[flavour] + objs + ["-o", tmp] + LIBS,
                                capture_output=True)
            if ld.returncode != 0:
                sys.stderr.write(ld.stderr.decode(errors="replace")[-4000:])
                raise SystemExit(2)
            os.replace(tmp, exe)
        os.utime(exe, None)
        _prune(BIN, keep=24)
        _prune(OBJ, keep=1500)
        if not quiet:
            sys.stderr.write("build_repo: %s (%d units)\n" % (exe, len(objs)))
        return exe
    finally:
        fcntl.flock(lock, fcntl.LOCK_UN)
        lock.close()


def harness_sources():
    """all harness/*.cc; files named in harness/WIP (work in progress, one name per line) are left
    out unless VERIF_INCLUDE_WIP=1, so that a half-written driver cannot break the checks"""
    d = os.path.join(VERIF, "harness")
    wip = set()
    wf = os.path.join(d, "WIP")
    if os.path.exists(wf) and os.environ.get("VERIF_INCLUDE_WIP") != "1":
        wip = set(x.strip() for x in open(wf) if x.strip())
    return sorted(os.path.join(d, f) for f in os.listdir(d) if f.endswith(".cc") and f not in wip)


def prune(keep_days=3):
    """Drop cache objects not used for a while (disk is limited)."""
    import time
    now = time.time()
    for d in (OBJ, BIN):
        if not os.path.isdir(d):
            continue
        for f in os.listdir(d):
            p = os.path.join(d, f)
            try:
                if now - os.stat(p).st_atime > keep_days * 86400:
                    os.unlink(p)
            except OSError:
                pass


if __name__ == "__main__":
    fl = sys.argv[1] if len(sys.argv) > 1 else "san"
    print(build(harness_sources(), "tmcg_harness", fl))
