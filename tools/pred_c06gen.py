"""C06, first clause (area groupgen): model-free judgement of the generating constructors.
A generated parameter set must be accepted by the class's own CheckGroup unless two of its independently
generated generators coincide (or a generator derived from a random exponent is 1 or equals its base) —
the only refusals the theorems of TmcgProps/C06Gen.lean allow."""
from props import toks, ilist, is_err, tag_of, group_spec

NOCOLL = ("BarnettSmartVTMF_dlog", "BarnettSmartVTMF_dlog_GroupQR", "NaorPinkasEOTP", "BarnettSmartVTMF_dlog->NaorPinkasEOTP")


def pred_c06gen(line, st):
    op, a, r = toks(line)
    if op == "prop.groupgen.elem":
        return "a generated generator fails CheckElement (%s)" % " ".join(a)
    if op == "prop.groupgen":
        kv = dict(x.split("=") for x in a[1:])
        gen, acc, col = int(kv["generated"]), int(kv["accepted"]), int(kv["collided"])
        st.setdefault("groupgen_classes", set()).add(a[0])
        if gen == 0:
            return "no parameter set generated for %s" % a[0]
        if acc != gen - col:
            return "%s: %d generated, %d collisions, but %d accepted" % (a[0], gen, col, acc)
        if a[0] in NOCOLL and acc != gen:
            return "%s: a generated parameter set was refused" % a[0]
        return None
    if not op.startswith("groupgen."):
        return None
    kind = op[len("groupgen."):]
    t = tag_of(a)
    if is_err(r) or r[0] in ("exhausted", "oracle-mismatch"):
        return "constructor / CheckGroup did not return (%s)" % r[0]
    if kind == "key" or t.startswith("pre:"):
        return None
    body = a[:-5]   # without FUEL coins plog olog tag
    log = a[-2]
    if kind == "use":
        y, fs, gsz, can = body[0], int(body[2]), int(body[3]), body[4] == "1"
        p, q, k, g, h = (int(x) for x in body[5:10])
        c = r[0] == "1"
        coll = (y != "NP") and h in (1, g)
        cls, gs = {"PVSS": "PVSS", "R": "R", "G": "G", "NP": "NP"}[y], []
    elif kind == "setup":
        fs, gsz = int(body[1]), int(body[2])
        p, q, k = (int(x) for x in body[3:6])
        h, gs, c = int(r[0]), ilist(r[1]), r[2] == "1"
        g, can, cls = 0, False, "P"
        coll = len(set([h] + gs)) != len(gs) + 1
    else:
        p, q, k, g, h = (int(x) for x in r[0:5])
        gs, c = ilist(r[5]), r[6] == "1"
        can = False
        if kind == "D":
            fs, gsz, can, cls, coll = int(body[0]), int(body[1]), body[2] == "1", "D", False
        elif kind == "QR":
            fs, es, cls, coll = int(body[0]), int(body[1]), "QR", False
            gsz = fs - 1
        elif kind in ("P", "SKC", "Pfrom"):
            fs, gsz, cls = int(body[1]), int(body[2]), "P"
            coll = h == 1 or len(set([h] + gs)) != len(gs) + 1
        elif kind == "VSSHE":
            fs, gsz, cls = int(body[2]), int(body[3]), "P"
            coll = h == 1 or len(set([h] + gs)) != len(gs) + 1
        elif kind in ("PT", "PTfrom"):
            fs, gsz, cls = int(body[0]), int(body[1]), "PT"
            coll = h in (1, g)
        elif kind == "VRHE":
            fs, gsz, cls, coll = int(body[0]), int(body[1]), "G", h == g
        elif kind == "NP":
            fs, gsz, cls, coll = int(body[0]), int(body[1]), "NP", False
        else:
            return "unknown groupgen line %s" % op
    if coll and not c:
        # the property asks for acceptance of every generated set: this IS a violation (known finding F55, probability about
        # n^2/q resp. 2/q: tiny subgroups only); a refusal WITHOUT a coincidence is a different failure and reported as such
        return "generated parameter set refused by its own CheckGroup: coinciding generators, the constructor does not redraw (%s, %s)" % (op, t)
    if c == coll:
        return ("generated parameter set refused by CheckGroup without a coincidence of generators (%s, %s)" % (op, t)) if not c \
            else ("parameter set with coinciding generators accepted (%s)" % op)
    # independent well-formedness (own primality test, own order checks): what was accepted is well-formed
    es = int(body[1]) if kind == "QR" else 0
    want = group_spec(cls, fs, gsz, can, es, p, q, k, g, h, gs, log)
    if want is not None and want != c:
        return "CheckGroup verdict %s on a generated set disagrees with the specification (%s)" % (r[-1], op)
    return None
