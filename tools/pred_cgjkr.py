"""Predicate for the summary lines of area "cgjkr" (harness/drv_cgjkr.cc): C15 / C16 on the real outputs of
the classes of src/CanettiGennaroJareckiKrawczykRabinASTC.cc, independent of the Lean model.
Conventions of /verif/tools/props.py (helpers toks, ilist, tag_of, _kv, _parties, _lagrange0)."""
import itertools
import sys

sys.path.insert(0, "/verif/tools")


def _cg_subsets(hs, k, cap=40):
    subs = list(itertools.combinations(hs, k))
    if len(subs) > cap:
        subs = subs[:cap // 2] + subs[-cap // 2:]
    return subs


def _cg_commit_at(C, n, t, dealers, i, p):
    """prod_{j in dealers} prod_k C_jk^((i+1)^k) mod p  (C = flat list n*(t+1))"""
    acc = 1
    for j in dealers:
        for k in range(t + 1):
            acc = acc * pow(C[j * (t + 1) + k], (i + 1) ** k, p) % p
    return acc


def _cg_bad_tokens(r, honest):
    """crash / exception / hang tokens at the end of a summary line that concern an honest party"""
    for x in r:
        if x == "hang":
            return "the run hung"
        if x.startswith("crash:P") or x.startswith("exc:P"):
            who = int(x.split(":")[1][1:])
            if who in honest:
                return "honest party %d %s" % (who, "crashed (%s)" % x if x.startswith("crash") else "left the call with a C++ exception (%s)" % x)
    return None


def pred_cgjkr(line, st):
    from props import toks, ilist, tag_of, _kv, _parties, _lagrange0  # at call time props is complete
    globals().update(toks=toks, ilist=ilist, tag_of=tag_of, _kv=_kv, _parties=_parties, _lagrange0=_lagrange0)
    op, a, r = toks(line)
    if op not in ("prop.cgjkr.gen", "prop.cgjkr.refresh", "prop.cgjkr.sign", "prop.cgjkr.vss2"):
        return None
    kv = _kv(a)
    n, t = int(kv["n"]), int(kv["t"])
    nums = [x for x in a if x.isdigit()]
    p, q, g, h = (int(x) for x in nums[:4])
    honest = ilist(kv["honest"])
    P = _parties(r)
    tag = tag_of(a)
    where = "seed=%s case=%s n=%d t=%d %s" % (kv.get("seed"), kv.get("case"), n, t, tag)
    bad = _cg_bad_tokens(r, honest)
    if bad:
        return "%s (%s %s)" % (bad, op, where)

    if op == "prop.cgjkr.vss2":
        # probe (only with --kind vss2): Pi: shareret|rec1ret|value1|rec2ret|value2, dealer 0
        st["cg_vss2"] = st.get("cg_vss2", 0) + 1
        sigma = kv["sigma"]
        for i in honest:
            v = P.get(i)
            if i == 0 or v is None:
                continue
            if v[0] != "1" or v[1] != "1" or v[2] != sigma:
                return "reconstruction of an honest dealer's back-up sharing fails at honest party %d (%s)" % (i, where)
            if v[3] != "1" or v[4] != sigma:
                return "a second reconstruction of the same back-up sharing under the same enclosing broadcast identifier fails at honest party %d (Sign step 2e after step 1e) (%s)" % (i, where)
        return None

    if op == "prop.cgjkr.gen":
        # Pi: ret|[QUAL]|x|xp|y|[xQUAL]|[C]
        st["cg_gen"] = st.get("cg_gen", 0) + 1
        H = {i: P.get(i) for i in honest}
        if any(v is None for v in H.values()):
            return "an honest party died during Generate (%s)" % where
        if any(v[0] != "1" for v in H.values()):
            return "Generate returned false for honest parties %s although at most t parties deviate (%s)" % ([i for i in honest if H[i][0] != "1"], where)
        if len({v[1] for v in H.values()}) != 1:
            return "honest parties disagree on QUAL: %s (%s)" % (sorted({v[1] for v in H.values()}), where)
        if len({v[5] for v in H.values()}) != 1:
            return "honest parties disagree on the qualified set of the joint sharing: %s (%s)" % (sorted({v[5] for v in H.values()}), where)
        v0 = H[honest[0]]
        qual, xq = ilist(v0[1]), ilist(v0[5])
        if not set(honest) <= set(qual):
            return "honest parties %s are not in QUAL %s (%s)" % (sorted(set(honest) - set(qual)), qual, where)
        if len({v[4] for v in H.values()}) != 1:
            return "honest parties disagree on the public key (%s)" % where
        y = int(v0[4])
        Cs = {i: ilist(H[i][6]) for i in honest}
        C = Cs[honest[0]]
        for i in honest:
            if any(Cs[i][j * (t + 1) + k] != C[j * (t + 1) + k] for j in xq for k in range(t + 1)):
                return "honest parties disagree on the commitments (verification values) of a qualified dealer (%s)" % where
        for i in honest:
            x, xp = int(H[i][2]), int(H[i][3])
            if pow(g, x, p) * pow(h, xp, p) % p != _cg_commit_at(C, n, t, xq, i, p):
                return "share of honest party %d does not match the verification values: g^x_i h^x'_i != prod C_jk^(i^k) (%s)" % (i, where)
        if len(honest) >= t + 1:
            secrets = {_lagrange0([(i + 1, int(H[i][2])) for i in S], q) for S in _cg_subsets(honest, t + 1)}
            if len(secrets) != 1:
                return "different (t+1)-subsets of honest shares interpolate to different secrets (%s)" % where
            if pow(g, secrets.pop(), p) != y:
                return "the secret interpolated from honest shares is not the discrete logarithm of the public key: g^x != y (QUAL %s, sharing QUAL %s) (%s)" % (qual, xq, where)
        return None

    if op == "prop.cgjkr.refresh":
        # Pi: genret|x0|xp0|y0|[QUAL0]|refret|[QUAL1]|x1|xp1|y1|[xQUAL1]|[C1]    `.` = outside sub
        st["cg_refresh"] = st.get("cg_refresh", 0) + 1
        sub = ilist(kv["sub"])
        hs = [i for i in honest if i in sub]
        H = {i: P.get(i) for i in hs}
        if any(v is None for v in H.values()):
            return "an honest party died before or during Refresh (%s)" % where
        if any(v[0] != "1" for v in H.values()):
            return None      # no valid key to refresh: judged on the gen line
        if any(v[5] != "1" for v in H.values()):
            return "Refresh returned false for honest parties %s although at most t parties deviate (%s)" % ([i for i in hs if H[i][5] != "1"], where)
        if len({v[6] for v in H.values()}) != 1:
            return "honest parties disagree on QUAL after the refresh: %s (%s)" % (sorted({v[6] for v in H.values()}), where)
        for i in hs:
            if H[i][9] != H[i][3]:
                return "the refresh changed the public key of honest party %d (%s)" % (i, where)
        if len({v[9] for v in H.values()}) != 1:
            return "honest parties disagree on the public key after the refresh (%s)" % where
        y = int(H[hs[0]][9])
        if t >= 1:
            same = [i for i in hs if H[i][7] == H[i][1]]
            if same:
                return "the refresh left the share of honest parties %s unchanged (%s)" % (same, where)
        if len({v[10] for v in H.values()}) != 1:
            return "honest parties disagree on the qualified set of the joint sharing after the refresh (%s)" % where
        xq = ilist(H[hs[0]][10])
        Cs = {i: ilist(H[i][11]) for i in hs}
        C = Cs[hs[0]]
        for i in hs:
            if any(Cs[i][j * (t + 1) + k] != C[j * (t + 1) + k] for j in xq for k in range(t + 1)):
                return "honest parties disagree on the refreshed commitments of a qualified dealer (%s)" % where
        for i in hs:
            x, xp = int(H[i][7]), int(H[i][8])
            if pow(g, x, p) * pow(h, xp, p) % p != _cg_commit_at(C, n, t, xq, i, p):
                return "refreshed share of honest party %d does not match the refreshed verification values (%s)" % (i, where)
        if len(hs) >= t + 1:
            for S in _cg_subsets(hs, t + 1):
                old = _lagrange0([(i + 1, int(H[i][1])) for i in S], q)
                new = _lagrange0([(i + 1, int(H[i][7])) for i in S], q)
                if old != new:
                    return "the refresh changed the secret shared among the honest parties %s (%s)" % (list(S), where)
                if pow(g, new, p) != y:
                    return "after the refresh the secret interpolated from honest shares is not the discrete logarithm of the public key (%s)" % where
        return None

    # ---- prop.cgjkr.sign   Pi: genret|[QUAL]|x|xp|y|signret|r|s|verify
    st["cg_sign"] = st.get("cg_sign", 0) + 1
    m = int(kv["m"])
    sub = ilist(kv["sub"])
    done = {i: P[i] for i in honest if i in sub and P.get(i) and len(P[i]) >= 9 and P[i][5] == "1"}
    if not done:
        return None
    st["cg_sign_completed"] = st.get("cg_sign_completed", 0) + 1
    sigs = {(v[6], v[7]) for v in done.values()}
    if len(sigs) != 1:
        return "honest parties obtained different signatures: %s (%s)" % (sorted(sigs), where)
    ys = {v[4] for v in done.values()}
    if len(ys) != 1:
        return "honest signers hold different public keys (%s)" % where
    rr, ss = (int(x) for x in next(iter(sigs)))
    y = int(next(iter(ys)))
    ok = False
    if 0 < rr < q and 0 < ss < q:
        w = pow(ss, -1, q)
        ok = rr == (pow(g, m * w % q, p) * pow(y, rr * w % q, p) % p) % q
    if not ok:
        return "threshold DSS signature (r,s)=(%d,%d) of a completed run does not satisfy the DSA verification equation under the joint key (step %s, refreshed=%s) (%s)" % (rr, ss, kv.get("step"), kv.get("refreshed"), where)
    if any(v[8] != "1" for v in done.values()):
        return "the library's verifier refuses the signature the run produced (%s)" % where
    return None


if __name__ == "__main__":
    st = {}
    nviol = 0
    for ln in sys.stdin:
        ln = ln.rstrip("\n")
        if not ln.startswith("prop.cgjkr"):
            continue
        v = pred_cgjkr(ln, st)
        if v:
            nviol += 1
            print("VIOLATION:", v)
    print("stats:", st, "violations:", nviol)
