#!/usr/bin/env python3
"""Regenerate lean/Tmcg/Gen/Constants.lean from /repo's current headers and sources.

Numeric macros are *evaluated by the compiler* (a tiny C++ program that includes
libTMCG.hh prints them), tables are extracted from the sources with anchored regular
expressions.  A missing anchor is a hard error.  The output file is only rewritten
when its content changes (so lake does not rebuild needlessly).
"""
import os, re, subprocess, sys, tempfile, hashlib

HERE = os.path.dirname(os.path.abspath(__file__))
VERIF = os.path.dirname(HERE)
REPO = os.environ.get("VERIF_REPO", "/repo")
OUT = os.path.join(VERIF, "lean", "Tmcg", "Gen", "Constants.lean")
# bounds of the OpenPGP packet context (property C12, area parse2): a file of its own, so that the
# (large) import cone of Constants.lean is not rebuilt when only these change
OUT_PGPCTX = os.path.join(VERIF, "lean", "Tmcg", "Gen", "PgpCtx.lean")
PGP_HEADER = os.path.join(REPO, "src", "CallasDonnerhackeFinneyShawThayerRFC4880.hh")

NUMERIC = """TMCG_MR_ITERATIONS TMCG_MAX_ZNP_ITERATIONS TMCG_MAX_DKG_PLAYERS TMCG_GROTH_L_E
TMCG_DDH_SIZE TMCG_DLSE_SIZE TMCG_QRA_SIZE TMCG_AIO_HIDE_SIZE TMCG_KEYID_SIZE
TMCG_KEY_NIZK_STAGE1 TMCG_KEY_NIZK_STAGE2 TMCG_KEY_NIZK_STAGE3 TMCG_MAX_CARDS TMCG_MAX_PLAYERS
TMCG_MAX_TYPEBITS TMCG_MAX_KEYBITS TMCG_MAX_VALUE_CHARS TMCG_MAX_KEY_CHARS TMCG_MAX_CARD_CHARS
TMCG_MAX_STACK_CHARS TMCG_MPZ_IO_BASE TMCG_PRAB_K0 TMCG_SAEP_S0 TMCG_MAX_FPOWM_T TMCG_MAX_FPOWM_N
TMCG_MAX_SSRANDOMM_CACHE TMCG_OPENPGP_CRC24_INIT TMCG_OPENPGP_CRC24_POLY TMCG_OPENPGP_RADIX64_MC
TMCG_OPENPGP_MAX_ALLOC TMCG_GCRY_MD_ALGO TMCG_GCRY_MAC_ALGO TMCG_GCRY_ENC_ALGO""".split()

EXTRA_EXPR = {
    # name -> C++ expression (evaluated against the repo headers)
    "TMCG_HASH_COMMITMENT_NAT": "(TMCG_HASH_COMMITMENT ? 1 : 0)",
    "SHASH_LEN": "gcry_md_get_algo_dlen(TMCG_GCRY_MD_ALGO)",
    "ULONG_BITS": "(8 * sizeof(unsigned long))",
    "AIO_SCHEDULER_NONE": "aiounicast::aio_scheduler_none",
    "AIO_SCHEDULER_ROUNDROBIN": "aiounicast::aio_scheduler_roundrobin",
    "AIO_SCHEDULER_RANDOM": "aiounicast::aio_scheduler_random",
    "AIO_SCHEDULER_DIRECT": "aiounicast::aio_scheduler_direct",
    "AIO_TIMEOUT_NONE": "aiounicast::aio_timeout_none",
    "AIO_TIMEOUT_EXTREMELY_SHORT": "aiounicast::aio_timeout_extremely_short",
    "AIO_TIMEOUT_VERY_SHORT": "aiounicast::aio_timeout_very_short",
    "AIO_TIMEOUT_SHORT": "aiounicast::aio_timeout_short",
    "AIO_TIMEOUT_MIDDLE": "aiounicast::aio_timeout_middle",
    "AIO_TIMEOUT_LONG": "aiounicast::aio_timeout_long",
    "AIO_TIMEOUT_VERY_LONG": "aiounicast::aio_timeout_very_long",
    "AIO_TIMEOUT_EXTREMELY_LONG": "aiounicast::aio_timeout_extremely_long",
}


def run_printer():
    lines = ['#include <cstdio>', '#include <libTMCG.hh>', 'int main(){']
    for n in NUMERIC:
        lines.append('printf("%s %%llu\\n", (unsigned long long)(%s));' % (n, n))
    for n, e in EXTRA_EXPR.items():
        lines.append('printf("%s %%llu\\n", (unsigned long long)(%s));' % (n, e))
    for k, (arr, ln) in TABLES.items():
        lines.append('printf("%s__LEN %%llu\\n", (unsigned long long)(%s));' % (k, ln))
        lines.append('for (size_t i = 0; i < %s; i++) printf("%s__%%zu %%llu\\n", i, (unsigned long long)(%s[i]));' % (ln, k, arr))
    lines.append('return 0;}')
    with tempfile.TemporaryDirectory(prefix="verif-gen-") as d:
        src = os.path.join(d, "p.cc"); exe = os.path.join(d, "p")
        open(src, "w").write("\n".join(lines))
        cc = subprocess.run(["g++", "-w", "-DHAVE_CONFIG_H", "-DLIBTMCG_VERIF", "-I" + REPO, "-I" + REPO + "/src",
                             src, "-o", exe, "-lgcrypt", "-lgpg-error", "-lgmp"], capture_output=True, text=True)
        if cc.returncode != 0:
            sys.stderr.write(cc.stderr[-3000:]); raise SystemExit("gen_constants: printer does not compile")
        out = subprocess.run([exe], capture_output=True, text=True, check=True).stdout
    vals = {}
    for l in out.splitlines():
        k, v = l.split(); vals[k] = int(v)
    return vals


TABLES = {
    # name -> (C++ array expression, length expression)
    "RADIX64_INVERSE": ("tmcg_openpgp_fRadix64", "sizeof(tmcg_openpgp_fRadix64)"),
    "RADIX64_ALPHABET": ("tmcg_openpgp_tRadix64", "(sizeof(tmcg_openpgp_tRadix64) - 1)"),
}


def extract_tables(vals):
    t = {}
    for k in TABLES:
        n = vals.pop(k + "__LEN")
        t[k] = [vals.pop("%s__%d" % (k, i)) for i in range(n)]
    if len(t["RADIX64_ALPHABET"]) != 64 or len(t["RADIX64_INVERSE"]) != 256:
        raise SystemExit("gen_constants: radix64 tables have unexpected sizes")
    return t


def pgpctx_members():
    """every member of `tmcg_openpgp_packet_ctx_t`, read from the header: (array members, all members)."""
    txt = open(PGP_HEADER).read()
    m = re.search(r"typedef struct\s*\{((?:(?!typedef struct).)*?)\}\s*tmcg_openpgp_packet_ctx_t\s*;", txt, re.S)
    if not m:
        raise SystemExit("gen_constants: cannot find tmcg_openpgp_packet_ctx_t in the OpenPGP header")
    body = re.sub(r"//[^\n]*", "", m.group(1))
    arrays, members = [], []
    for decl in body.split(";"):
        decl = decl.strip()
        if not decl:
            continue
        mm = re.match(r"^[A-Za-z_][A-Za-z0-9_ \t]*?[ \t*]+([A-Za-z_][A-Za-z0-9_]*)\s*(\[[^\]]*\])?$", decl, re.S)
        if not mm:
            raise SystemExit("gen_constants: cannot parse member declaration %r of tmcg_openpgp_packet_ctx_t" % decl)
        members.append(mm.group(1))
        if mm.group(2):
            arrays.append(mm.group(1))
    if len(arrays) < 20 or len(members) < 100:
        raise SystemExit("gen_constants: suspiciously few members of tmcg_openpgp_packet_ctx_t: %d arrays, %d members" % (len(arrays), len(members)))
    return arrays, members


# types of the length variables the OpenPGP decoders compute with (width in bits, evaluated by the compiler)
PGP_WIDTHS = {
    "PGP_BITS_SIZE_T": "(8 * sizeof(size_t))",
    "PGP_BITS_UINT32": "(8 * sizeof(uint32_t))",
    "PGP_BITS_CTX_hspdlen": "(8 * sizeof(ctx.hspdlen))",
    "PGP_BITS_CTX_encdatalen": "(8 * sizeof(ctx.encdatalen))",
    "PGP_BITS_CTX_rkwlen": "(8 * sizeof(ctx.rkwlen))",
    "PGP_BITS_CTX_curveoidlen": "(8 * sizeof(ctx.curveoidlen))",
    "PGP_BITS_CTX_datafilenamelen": "(8 * sizeof(ctx.datafilenamelen))",
    "PGP_BITS_CTX_notation_name_length": "(8 * sizeof(ctx.notation_name_length))",
    "PGP_BITS_CTX_notation_value_length": "(8 * sizeof(ctx.notation_value_length))",
    "PGP_SIZEOF_CTX": "sizeof(ctx)",
    "PGP_MAX_ALLOC": "TMCG_OPENPGP_MAX_ALLOC",
}

def run_pgpctx_printer(arrays):
    lines = ['#include <cstdio>', '#include <cstdint>', '#include <libTMCG.hh>', 'int main(){', 'static tmcg_openpgp_packet_ctx_t ctx;']
    for a in arrays:
        lines.append('printf("CTX_CAP_%s %%llu\\n", (unsigned long long)(sizeof(ctx.%s)));' % (a, a))
        lines.append('printf("CTX_ELEM_%s %%llu\\n", (unsigned long long)(sizeof(ctx.%s[0])));' % (a, a))
    for n, e in PGP_WIDTHS.items():
        lines.append('printf("%s %%llu\\n", (unsigned long long)(%s));' % (n, e))
    lines.append('return 0;}')
    with tempfile.TemporaryDirectory(prefix="verif-gen-") as d:
        src = os.path.join(d, "q.cc"); exe = os.path.join(d, "q")
        open(src, "w").write("\n".join(lines))
        cc = subprocess.run(["g++", "-w", "-DHAVE_CONFIG_H", "-DLIBTMCG_VERIF", "-I" + REPO, "-I" + REPO + "/src",
                             src, "-o", exe, "-lgcrypt", "-lgpg-error", "-lgmp"], capture_output=True, text=True)
        if cc.returncode != 0:
            sys.stderr.write(cc.stderr[-3000:]); raise SystemExit("gen_constants: OpenPGP context printer does not compile")
        out = subprocess.run([exe], capture_output=True, text=True, check=True).stdout
    vals = {}
    for l in out.splitlines():
        k, v = l.split(); vals[k] = int(v)
    return vals


def main_pgpctx():
    arrays, members = pgpctx_members()
    vals = run_pgpctx_printer(arrays)
    for a in arrays:
        if vals.pop("CTX_ELEM_" + a) != 1:
            raise SystemExit("gen_constants: array %s of tmcg_openpgp_packet_ctx_t does not consist of octets" % a)
    o = ["-- GENERATED by tools/gen_constants.py from %s — do not edit" % "/repo (current working tree)",
         "-- capacities of the fixed-size arrays of tmcg_openpgp_packet_ctx_t (sizeof, evaluated by the compiler),",
         "-- widths of the length variables the decoders compute with",
         "namespace Tmcg.Gen"]
    for k in sorted(vals):
        o.append("def %s : Nat := %d" % (k, vals[k]))
    o.append("def CTX_ARRAYS : List (String × Nat) := [%s]" % ", ".join('("%s", %d)' % (a, vals["CTX_CAP_" + a]) for a in arrays))
    o.append("def CTX_MEMBER_COUNT : Nat := %d" % len(members))
    o.append("end Tmcg.Gen")
    txt = "\n".join(o) + "\n"
    old = open(OUT_PGPCTX).read() if os.path.exists(OUT_PGPCTX) else None
    if old != txt:
        tmp = OUT_PGPCTX + ".tmp%d" % os.getpid()
        open(tmp, "w").write(txt); os.replace(tmp, OUT_PGPCTX)
    return vals


def main():
    main_pgpctx()
    vals = run_printer()
    tabs = extract_tables(vals)
    o = ["-- GENERATED by tools/gen_constants.py from %s — do not edit" % "/repo (current working tree)",
         "namespace Tmcg.Gen"]
    for k in sorted(vals):
        o.append("def %s : Nat := %d" % (k, vals[k]))
    for k in sorted(tabs):
        o.append("def %s : List Nat := [%s]" % (k, ", ".join(str(x) for x in tabs[k])))
    o.append("end Tmcg.Gen")
    txt = "\n".join(o) + "\n"
    old = open(OUT).read() if os.path.exists(OUT) else None
    if old != txt:
        os.makedirs(os.path.dirname(OUT), exist_ok=True)
        tmp = OUT + ".tmp%d" % os.getpid()
        open(tmp, "w").write(txt); os.replace(tmp, OUT)
    return vals, tabs

if __name__ == "__main__":
    v, t = main()
    print("gen_constants: %d numeric constants, %d tables -> %s" % (len(v), len(t), OUT))
