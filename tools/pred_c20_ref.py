# C20 predicate on the `prop.pgpmsg` lines of the pgpmsg area (verdicts of the real library only).
# Conventions of /verif/tools/props.py: toks(line) -> (op, args, rhs); tag_of(args); return None or a message;
# `st` collects coverage (see c20_coverage below for an end-of-run check).
#
#   prop.pgpmsg sym <what> algo=<a> mode=<m> cs=<c> len=<n> tag:<class> => ok|refused <eq>
#   prop.pgpmsg sig <key> v<ver> <type> hash=<h> len=<n> tag:<class> => ok|refused same=<b>
#   prop.pgpmsg keyblock <key> hash=<h> tag:<class> => ok|refused same=<b>
#   prop.pgpmsg aead-nonces mode=<m> cs=<c> len=<n> => calls=<k> distinct=<d>      (emitted only when nonces repeat)
#   prop.pgpmsg sigtime|filehash|sig-made …                                        informational


def pred_c20(line, st):
    op, a, r = toks(line)
    if op != "prop.pgpmsg" or not a or not r:
        return None
    kind, tag = a[0], tag_of(a)
    cov = st.setdefault("c20", {"sym": set(), "sig": set(), "classes": set()})
    if kind == "aead-nonces":
        return "AEAD nonces repeat within one message (%s): %s" % (" ".join(a[1:]), " ".join(r))
    if kind == "sym":
        kv = dict(x.split("=", 1) for x in a[2:] if "=" in x and not x.startswith("tag:"))
        what = "%s algo=%s mode=%s cs=%s len=%s" % (a[1], kv.get("algo"), kv.get("mode"), kv.get("cs"), kv.get("len"))
        verdict, eq = r[0], (r[1] if len(r) > 1 else "0")
        cov["classes"].add("sym:" + tag.split(":")[0])
        if tag == "honest-enc-failed":
            return "encryption of an honest message failed (%s)" % what
        if tag.startswith("honest"):
            cov["sym"].add((a[1], kv.get("algo"), kv.get("mode"), kv.get("cs")))
            if verdict != "ok" or eq != "1":
                return "honest message (%s, %s) did not decrypt to the plaintext: %s %s" % (what, tag, verdict, eq)
            return None
        if tag == "empty":          # SymmetricEncryptAEAD refuses the empty plaintext (a literal packet is never empty)
            return None if verdict == "refused" else "empty plaintext accepted (%s)" % what
        # every other class is a change of cipher text, tag, associated data, IV, key, framing, or missing integrity protection
        if verdict != "refused":
            return "tampered / unprotected message accepted (%s, %s)" % (what, tag)
        return None
    if kind == "sig":
        what = " ".join(a[1:-1])
        verdict, same = r[0], (r[1] if len(r) > 1 else "same=0")
        cov["classes"].add("sig:" + tag.split(":")[0])
        if tag.startswith("honest"):
            cov["sig"].add((a[1], a[2], a[3]))
            return None if verdict == "ok" else "honest signature refused (%s, %s)" % (what, tag)
        if verdict == "ok":
            # a changed packet that still parses to the same signature (MPI bit count slack, re-synchronised header,
            # the unhashed key ID of a V3 signature) is another encoding of it, not an altered signature
            if tag.startswith("flip:sig-") and same == "same=1":
                return None
            return "altered / invalid signature accepted (%s, %s)" % (what, tag)
        return None
    if kind == "keyblock":
        verdict, same = r[0], (r[1] if len(r) > 1 else "same=0")
        cov["classes"].add("keyblock:" + tag.split(":")[0])
        if tag == "honest":
            return None if verdict == "ok" else "honest key block refused (%s)" % a[1]
        if verdict == "ok" and not (tag.startswith("flip:sig") and same == "same=1"):
            return "altered key block accepted (%s, %s)" % (a[1], tag)
        return None
    return None


def c20_coverage(st, thorough=False):
    """end-of-run check of the quantifier: returns None or a message"""
    cov = st.get("c20")
    if not cov:
        return "no prop.pgpmsg lines"
    need = {"sym:honest", "sym:flip", "sym:reorder", "sym:drop-final", "sym:truncate", "sym:ad", "sym:iv", "sym:key",
            "sym:nomdc", "sym:wrongmdc", "sig:honest", "sig:flip", "sig:expired", "sig:future", "sig:olderthankey",
            "sig:weakhash", "sig:otherkey", "keyblock:honest", "keyblock:flip"}
    missing = need - cov["classes"]
    if missing:
        return "classes not exercised: %s" % " ".join(sorted(missing))
    aead = {(alg, m, cs) for (w, alg, m, cs) in cov["sym"] if w == "aead"}
    for m in ("eax", "ocb"):
        if {int(cs) for (_, mm, cs) in aead if mm == m} < set(range(0, 22)):
            return "not every chunk size octet 0..21 exercised for %s" % m
        if {alg for (alg, mm, _) in aead if mm == m} < {"7", "8", "9", "10", "11", "12", "13"}:
            return "not every 128-bit-block cipher exercised for %s" % m
    if {alg for (w, alg, m, cs) in cov["sym"] if w == "seipd"} < {"2", "3", "4", "7", "8", "9", "10", "11", "12", "13"}:
        return "not every cipher exercised with MDC"
    keys = {k for (k, v, t) in cov["sig"]}
    if keys < {"rsa", "dsa160", "dsa256", "ecdsa", "eddsa"}:
        return "not every signing algorithm exercised"
    if {v for (k, v, t) in cov["sig"]} < {"v3", "v4", "v5"}:
        return "not every signature version exercised"
    return None
