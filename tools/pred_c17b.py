# Predicate for property C17, multi-party part (area "jl", harness/drv_jl.cc), in the conventions of
# /verif/tools/props.py: uses its helpers toks, ilist, plist, tag_of, _kv, _parties, _lagrange0.
# Paste below pred_c17 in props.py (or `from props import *` for a stand-alone test, see the bottom).


def pred_c17b(line, st):
    """multi-party coin flip (JareckiLysyanskayaEDCF::Flip, n forked parties over the real channels and the
    real reliable broadcast), judged on the library's own outputs, independently of the Lean model:
    every honest party returns true with the same coin and the same Qual; Qual contains the honest parties;
    every honest party holds, for every member j of Qual, a share that matches j's commitments; the coin is the
    sum mod q of the committed shares a_j = f_j(0) of the members of Qual, f_j being the polynomial fixed by
    j's commitments (interpolated from honest parties' shares; for an honest j it must be the a_j it drew);
    so a wrong or withheld opening of a member of Qual was reconstructed.  ORDER: an honest party broadcasts
    its opening only after the last change of its table of the others' commitments, and at that moment the
    commitment row of every member of its Qual is complete."""
    from props import toks, ilist, plist, tag_of, _kv, _parties, _lagrange0  # at call time props is complete
    import itertools
    op, a, r = toks(line)
    if op != "prop.jl.flip":
        return None
    kv = _kv(a)
    n, t = int(kv["n"]), int(kv["t"])
    nums = [x for x in a if x.isdigit()]
    p, q, g, h = (int(x) for x in nums[:4])
    honest = ilist(kv["honest"])
    P = _parties(r)
    tag = tag_of(a)
    where = "seed=%s case=%s n=%d t=%d %s" % (kv.get("seed"), kv.get("case"), n, t, tag)
    st["runs"] = st.get("runs", 0) + 1
    if any(("crash" in x or "exc:" in x or x == "hang") for x in r if not x.startswith("P")):
        return "a party crashed, threw or hung (%s)" % where
    f = n - len(honest)
    if not (2 * t < n and f <= t) and f > 0:
        return None           # more deviating parties than the protocol tolerates: nothing is claimed
    if f > 0:
        st["cheat"] = st.get("cheat", 0) + 1
    H = {i: P.get(i) for i in honest}
    if any(x is None for x in H.values()):
        return "an honest party died during Flip (%s)" % where
    bad = [i for i in honest if H[i][0] != "1"]
    if bad:
        return "Flip returned false at honest parties %s although at most t parties deviate (%s)" % (bad, where)
    coins = {x[1] for x in H.values()}
    if len(coins) != 1:
        return "honest parties output different coins: %s (%s)" % ({i: x[1] for i, x in H.items()}, where)
    coin = int(coins.pop())
    if not (0 <= coin < q):
        return "coin outside [0,q) (%s)" % where
    quals = {x[2] for x in H.values()}
    if len(quals) != 1:
        return "honest parties disagree on Qual: %s (%s)" % (sorted(quals), where)
    qual = ilist(quals.pop())
    if not set(honest) <= set(qual):
        return "honest parties %s are not in Qual %s (%s)" % (sorted(set(honest) - set(qual)), qual, where)
    if len(qual) <= t:
        return "Qual has at most t members (%s)" % where
    # the commitments of the members of Qual as the honest parties hold them
    rows = {}
    for i in honest:
        Cflat = ilist(H[i][5])
        if len(Cflat) != n * (t + 1):
            return "commitment table of party %d has the wrong size (%s)" % (i, where)
        rows[i] = [Cflat[j * (t + 1):(j + 1) * (t + 1)] for j in range(n)]
    first = honest[0]
    for i in honest:
        for j in qual:
            if rows[i][j] != rows[first][j]:
                return "honest parties %d and %d hold different commitments of Qual member %d (%s)" % (first, i, j, where)
    C = rows[first]
    S = {i: ilist(H[i][3]) for i in honest}
    SP = {i: ilist(H[i][4]) for i in honest}

    def F(j, x):
        acc = 1
        for k, Ck in enumerate(C[j]):
            acc = acc * pow(Ck, x ** k, p) % p
        return acc

    committed = {}
    for j in qual:
        if any(not (0 < Ck < p and pow(Ck, q, p) == 1) for Ck in C[j]):
            return "Qual member %d has a commitment outside the group (%s)" % (j, where)
        for i in honest:
            if pow(g, S[i][j] % q, p) * pow(h, SP[i][j] % q, p) % p != F(j, i + 1):
                return ("honest party %d ends with a share of Qual member %d that does not match %d's commitments "
                        "(%s)" % (i, j, j, where))
        if len(honest) < t + 1:
            continue
        subsets = list(itertools.combinations(honest, t + 1))
        if len(subsets) > 12:
            subsets = subsets[:6] + subsets[-6:]
        vals = {_lagrange0([(i + 1, S[i][j] % q) for i in sub], q) for sub in subsets}
        if len(vals) != 1:
            return "honest parties' shares of Qual member %d do not lie on one polynomial of degree t (%s)" % (j, where)
        committed[j] = vals.pop()
        if j in honest:
            aj, haj = int(H[j][6]), int(H[j][7])
            if committed[j] != aj % q:
                return "the shares of honest party %d's polynomial do not interpolate to the a_i it drew (%s)" % (j, where)
            if pow(g, aj, p) * pow(h, haj, p) % p != C[j][0]:
                return "C_%d0 is not the commitment to the additive share party %d drew (%s)" % (j, j, where)
    if len(honest) >= t + 1:
        want = sum(committed[j] for j in qual) % q
        if coin != want:
            return ("the coin %d is not the sum mod q of the committed shares of Qual (%d); a wrong or missing "
                    "opening was not reconstructed to the committed value (%s)" % (coin, want, where))
        st["sum_checked"] = st.get("sum_checked", 0) + 1
        if "open-" in tag or "sfb" in tag:
            st["bad_openings"] = st.get("bad_openings", 0) + 1
    # order of commitment and opening
    for i in honest:
        lastC, opn, missing = int(H[i][8]), int(H[i][9]), ilist(H[i][10])
        if opn < 0:
            return "honest party %d returned a coin without having broadcast an opening (%s)" % (i, where)
        if n > 1 and not (0 <= lastC < opn):
            return ("honest party %d broadcast its opening (event %d) before the last delivery of a commitment "
                    "(event %d) (%s)" % (i, opn, lastC, where))
        late = sorted(set(missing) & set(qual))
        if late:
            return ("honest party %d revealed its share while the commitments of %s (members of its Qual) were "
                    "incomplete (%s)" % (i, late, where))
    st["order_checked"] = st.get("order_checked", 0) + 1
    return None


if __name__ == "__main__":
    import sys
    sys.path.insert(0, "/verif/tools")
    from props import toks, ilist, plist, tag_of, _kv, _parties, _lagrange0  # noqa: F401
    st = {}
    bad = 0
    for ln in open(sys.argv[1]):
        m = pred_c17b(ln.rstrip("\n"), st)
        if m:
            bad += 1
            print("VIOLATION:", m)
    print("state:", st, "violations:", bad)
