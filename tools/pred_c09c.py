# Predicate for area "primegen" (C09): independent Miller-Rabin on the outputs of every prime generator
# and the generator's defining relation.  Judges the `prop.primegen <fn> psize qsize kin <out…> => …` lines
# (and, identically, the left/right sides of the `primegen.<fn>` lines).  Returns None when fine, a message otherwise.

def _mr(n, rounds=24):
    """Miller-Rabin with fixed small bases plus pseudo-random ones derived from n (Python pow only)"""
    if n < 2:
        return False
    small = (2, 3, 5, 7, 11, 13, 17, 19, 23, 29, 31, 37)
    for s in small:
        if n % s == 0:
            return n == s
    d, r = n - 1, 0
    while d % 2 == 0:
        d //= 2
        r += 1
    bases = list(small)
    x = n
    for _ in range(rounds):
        x = (x * 6364136223846793005 + 1442695040888963407) % (1 << 64)
        bases.append(2 + x % (n - 3))
    for a in bases:
        y = pow(a, d, n)
        if y in (1, n - 1):
            continue
        for _ in range(r - 1):
            y = y * y % n
            if y == n - 1:
                break
        else:
            return False
    return True


def _bl(x):
    x = abs(x)
    return 1 if x == 0 else x.bit_length()


def _prefix_k(kin, psize, qsize):
    k = kin
    while _bl(k) < psize - qsize:
        k *= 62
    return k + 1 if k % 2 == 1 else k


def _judge(fn, psize, qsize, kin, out):
    import math
    if out and out[0].startswith(("throw:", "trap:")):
        # argument errors: only the documented ones
        if fn in ("lprime", "lprime_prefix") and qsize >= psize:
            return None if out[0] == "throw:invalid_argument" else "qsize >= psize must be refused by invalid_argument"
        if (fn in ("oprime", "oprime_noninc") and psize == 0) or (fn.startswith("s") and fn != "sprime3mod4" and qsize == 0) \
                or (fn == "sprime3mod4" and psize <= 1) or (fn in ("lprime", "lprime_prefix") and qsize == 0):
            return None if out[0] == "throw:invalid_argument" else "size 0 must be refused by invalid_argument"
        return "generator %s failed on legal arguments: %s" % (fn, out[0])
    if out and out[0] in ("exhausted", "oracle-mismatch", "unknown-generator"):
        return "generator %s: %s" % (fn, out[0])
    if len(out) < 3:
        return "generator %s: malformed output" % fn
    p, q, k = int(out[0]), int(out[1]), int(out[2])
    if not _mr(p):
        return "%s returned a composite p" % fn
    if fn in ("oprime", "oprime_noninc"):
        if p % 2 != 1 or _bl(p) < psize:
            return "%s: p even or too short" % fn
        return None
    if fn.startswith("s"):
        if p != 2 * q + 1 or k != 2:
            return "%s: p != 2q + 1" % fn
        if not _mr(q):
            return "%s returned a composite q" % fn
        if fn == "sprime3mod4":
            if p % 4 != 3 or _bl(p) < psize:
                return "sprime3mod4: p not 3 mod 4 or too short"
            return None
        if _bl(q) < qsize or _bl(p) < qsize + 1:
            return "%s: sizes" % fn
        if fn == "sprime2g" and p % 8 != 7:
            return "sprime2g: p not 7 mod 8"
        return None
    # lprime, lprime_prefix
    if not _mr(q):
        return "%s returned a composite q" % fn
    if p != k * q + 1 or k <= 0 or k % 2 != 0 or math.gcd(k, q) != 1:
        return "%s: p = kq + 1 with even k coprime to q violated" % fn
    if _bl(p) < psize or _bl(q) < qsize:
        return "%s: sizes" % fn
    if fn == "lprime_prefix" and k != _prefix_k(kin, psize, qsize):
        return "lprime_prefix: k is not the enhanced prefix"
    return None


def pred_c09c(line, st):
    if line.startswith("prop.primegen "):
        lhs, _, _ = line.partition(" => ")
        t = lhs.split()
        if len(t) < 6:
            return "malformed prop.primegen line"
        fn, psize, qsize, kin, out = t[1], int(t[2]), int(t[3]), int(t[4]), t[5:]
        return _judge(fn, psize, qsize, kin, out)
    if line.startswith("primegen."):
        lhs, _, rhs = line.partition(" => ")
        t = lhs.split()
        fn = t[0][len("primegen."):]
        if len(t) < 6:
            return "malformed primegen line"
        return _judge(fn, int(t[1]), int(t[2]), int(t[4]), rhs.split())
    return None
