def pred_c11b(line, st):
    """C11, second part (area io2): every exportable type imports into an object equal to the
    original and re-exports the identical text.

    Direct checks on the implementation's trace (independent of the Lean model):
      * prop.io2.roundtrip / prop.io2.reimport lines (the harness compared objects field by field and
        texts byte by byte) must be 1;
      * every `io2.<type>.export … tag:honest|tag:fresh` line must be followed by the
        `io2.<type>.import` (or `.stream`) line of the same text whose result fields are exactly the
        exported fields (the predicate redoes the comparison from the two lines);
      * an import line with tag:honest / tag:fresh must never be refused.
    Returns None (fine) or a message."""
    from props import toks, tag_of, plist, ilist
    op, a, r = toks(line)
    if op in ("prop.io2.roundtrip", "prop.io2.reimport"):
        if r != ["1"]:
            return "export/import round trip of %s (%s) changed the object or its text" % (a[0], " ".join(a[1:]))
        st["io2_roundtrips"] = st.get("io2_roundtrips", 0) + 1
        return None
    if op == "prop.io2.noexport":
        return None
    if not op.startswith("io2."):
        return None
    parts = op.split(".")
    if len(parts) != 3:
        return None
    typ, what = parts[1], parts[2]
    tag = tag_of(a)
    args = a[:-1] if tag else a
    good = tag in ("honest", "fresh")
    refused = bool(r) and (r[0] == "reject" or r[0].startswith("throw") or r[0].startswith("trap"))
    if what in ("export", "keys"):
        # remember the exported object: fields and text
        if what == "export" and r:
            st["io2_last"] = (typ, args, r[0], good)
        return None
    if what in ("import", "stream"):
        if not args:
            return None
        text = args[-1]
        if good and refused:
            return "io2.%s: a text exported by the library is refused by its own importer (%s)" % (typ, r[0])
        last = st.get("io2_last")
        # the base class export line (vtmf) also serves the GroupQR importer; skc shares com's fields
        same = {"qr": ("vtmf", "qr"), "skc": ("skc", "com")}.get(typ, (typ,))
        if good and last and last[3] and last[0] in same and last[2] == text:
            if what == "stream" and typ in ("pub", "sec"):
                # operator >> needs the text to be one line: only compared when it is
                if "0a" in [text[i:i + 2] for i in range(0, len(text), 2)] or "00" in [text[i:i + 2] for i in range(0, len(text), 2)]:
                    return None
            if r != last[1]:
                return "io2.%s: import(export x) differs from x" % typ
            st["io2_pairs"] = st.get("io2_pairs", 0) + 1
        return None
    return None
