# C19 / C20, GnuPG cross-check (area gpgx): the artefacts the real library emitted (`prop.gpgx` lines of
# harness/drv_gpgx.cc) are judged by GnuPG in a throw-away GNUPGHOME.
#
#   judge(lines, tmp_parent=None, kinds=None, jobs=None) -> list of failure messages      (COVERAGE = summary of the last call)
#   judge2(...)                                          -> (failures, coverage)
#   pred_gpgx(line, st) / gpgx_final(st, kinds=None)     -> the props.py conventions: collect per line, judge at the end
#
# Verdicts come from gpg's status lines (--status-fd 1: IMPORT_OK, GOODSIG, VALIDSIG, BADSIG, ERRSIG, DECRYPTION_OKAY,
# DECRYPTION_FAILED, …), exit codes, --with-colons records and the octets gpg wrote; never from its human-readable text.
# gpg not installed: no failure, coverage note "gpg-missing".
#
# kinds: pubkey seckey armor s2k (C19) / detsig symenc pkenc (C20).  `s2k` and the reverse armor direction have no lines of their
# own: gpg encrypts / armors here, a second invocation of the harness (its path comes with the `prop.gpgx exe` line) decrypts /
# decodes with the library.
import hashlib
import os
import random
import re
import shutil
import subprocess
import tempfile
from concurrent.futures import ThreadPoolExecutor

ALL_KINDS = ("pubkey", "seckey", "armor", "s2k", "detsig", "symenc", "pkenc")
COVERAGE = {}
STRICT = False      # True: the recorded deviations G1 (ArmorDecode, gpg's empty armor) and G3 (file overload of the text hash, NUL octets) count as failures
GPG = shutil.which("gpg")
CIPHER_NAMES = {1: "IDEA", 2: "3DES", 3: "CAST5", 4: "BLOWFISH", 7: "AES", 8: "AES192", 9: "AES256", 10: "TWOFISH",
                11: "CAMELLIA128", 12: "CAMELLIA192", 13: "CAMELLIA256"}
HASH_NAMES = {2: "SHA1", 3: "RIPEMD160", 8: "SHA256", 9: "SHA384", 10: "SHA512", 11: "SHA224"}
PKALGO = {"rsa": "1", "dsa160": "17", "dsa224": "17", "dsa256": "17", "elg": "16"}


def _b(s):
    return b"" if s == "-" else bytes.fromhex(s)


def _toks(line):
    lhs, _, rhs = line.partition(" => ")
    a = lhs.split(" ")
    return a[0], a[1:], rhs.split(" ") if rhs else []


def _tag(a):
    return a[-1][4:] if a and a[-1].startswith("tag:") else ""


def _kv(a):
    return dict(x.split("=", 1) for x in a if "=" in x and not x.startswith("tag:"))


class Gpg:
    def __init__(self, home):
        self.home = home
        self.calls = 0

    def run(self, args, stdin=None, timeout=180):
        cmd = [GPG, "--batch", "--no-tty", "--quiet", "--homedir", self.home, "--trust-model", "always", "--status-fd", "1",
               "--pinentry-mode", "loopback", "--no-auto-check-trustdb", "--no-greeting"] + args
        self.calls += 1
        try:
            p = subprocess.run(cmd, input=stdin, stdout=subprocess.PIPE, stderr=subprocess.PIPE, timeout=timeout)
        except subprocess.TimeoutExpired:
            return 124, [], b"", b"timeout"
        status = [l[9:].decode("latin1").strip() for l in p.stdout.split(b"\n") if l.startswith(b"[GNUPG:] ")]
        return p.returncode, status, p.stdout, p.stderr

    def kill_agent(self):
        gc = shutil.which("gpgconf")
        if gc:
            try:
                subprocess.run([gc, "--homedir", self.home, "--kill", "all"], stdout=subprocess.DEVNULL, stderr=subprocess.DEVNULL, timeout=30)
            except Exception:
                pass


def _has(status, word):
    return any(s == word or s.startswith(word + " ") for s in status)


def _short(status, n=6):
    return "; ".join(status[:n]) if status else "(no status lines)"


def _what(a, keep):
    return " ".join(x for x in a[:keep])


def _pmap(jobs, fn, items):
    if not items:
        return []
    with ThreadPoolExecutor(max_workers=jobs) as ex:
        return list(ex.map(fn, items))


def judge2(lines, tmp_parent=None, kinds=None, jobs=None, keep_failing=None):
    """returns (failures, coverage); keep_failing: a directory that receives the artefacts gpg disagreed about"""
    global COVERAGE
    kinds = set(kinds or ALL_KINDS)
    cov = {"accepted": {}, "rejected_tampered": {}, "observations": {}, "deviations": [], "notes": [], "gpg_calls": 0}
    fails = []
    if GPG is None:
        cov["notes"].append("gpg-missing")
        COVERAGE = cov
        return [], cov
    jobs = jobs or max(2, min(8, (os.cpu_count() or 4)))
    recs = {k: [] for k in ALL_KINDS}
    exe = None
    seed = 1
    thorough = False
    nohash = []
    for ln in lines:
        if not ln.startswith("prop.gpgx "):
            continue
        op, a, r = _toks(ln)
        if not a:
            continue
        if a[0] == "exe":
            exe = _b(a[1]).decode() or None
            seed = int(_kv(a).get("seed", "1"))
            thorough = _kv(a).get("tier") == "thorough"
        elif a[0] in recs:
            recs[a[0]].append((a, r, ln))
        elif a[0] == "detsig-nohash":
            nohash.append(a)
    root = tempfile.mkdtemp(prefix="gpgx-", dir=tmp_parent)
    home = os.path.join(root, "h")
    extra_home = None
    if len(home) > 80:
        # the agent's socket lives in the home directory and a socket path has at most 107 characters
        home = extra_home = tempfile.mkdtemp(prefix="gx")
    else:
        os.mkdir(home, 0o700)
    gpg = Gpg(home)
    counter = [0]

    def fname(ext):
        counter[0] += 1
        return os.path.join(root, "f%05d.%s" % (counter[0], ext))

    def put(data, ext):
        p = fname(ext)
        with open(p, "wb") as f:
            f.write(data)
        return p

    def fail(msg, ln=None, files=()):
        if ln is not None:
            msg += " [line sha256 %s]" % hashlib.sha256(ln.encode()).hexdigest()[:16]
        fails.append(msg)
        if keep_failing:
            os.makedirs(keep_failing, exist_ok=True)
            for f in files:
                try:
                    shutil.copy(f, keep_failing)
                except OSError:
                    pass

    def acc(kind, *key):
        d = cov["accepted"].setdefault(kind, {})
        k = "/".join(str(x) for x in key)
        d[k] = d.get(k, 0) + 1

    def deviation(text, files=()):
        # a difference between the library and gpg that is recorded as a finding (findings/gpgx_findings.txt) and, unless STRICT,
        # not counted as a failure of the check: the properties speak about what the library EMITS
        if STRICT:
            fail(text, None, files)
        elif text not in cov["deviations"]:
            cov["deviations"].append(text)

    def observe(text):
        cov["observations"][text] = cov["observations"].get(text, 0) + 1

    def note(text):
        if text not in cov["notes"]:
            cov["notes"].append(text)

    def rej(kind, *key):
        d = cov["rejected_tampered"].setdefault(kind, {})
        k = "/".join(str(x) for x in key)
        d[k] = d.get(k, 0) + 1

    try:
        # ------------------------------------------------------------------ public keys (always imported: detsig / pkenc need them)
        pub = []
        for (a, r, ln) in recs["pubkey"]:
            kv = _kv(a)
            data = _b(a[7])
            pub.append(dict(a=a, r=r, ln=ln, kv=kv, tag=_tag(a), prim=a[1], file=put(data, "asc" if kv["fmt"] == "asc" else "pgp"), data=data,
                            fpr=a[8].upper(), keyid=a[9].upper(), subfpr=a[10].upper() if a[10] != "-" else None,
                            subkeyid=a[11].upper() if a[11] != "-" else None))
        imported = {}
        if pub:
            rc, st, out, err = gpg.run(["--import"] + [p["file"] for p in pub])
            for s in st:
                w = s.split()
                if w[0] == "IMPORT_OK" and len(w) >= 3:
                    imported[w[2].upper()] = int(w[1])
            # the key listing: fingerprints and key IDs as gpg computes them
            rc, st, out, err = gpg.run(["--with-colons", "--fingerprint", "--fingerprint", "--list-keys"])
            listing = {}        # primary fpr -> dict(keyid, algo, subs: {fpr: (keyid, algo)}, uids)
            cur = None
            last = None
            for l in out.decode("latin1").split("\n"):
                f = l.split(":")
                if f[0] == "pub":
                    cur = dict(keyid=f[4], algo=f[3], bits=f[2], subs={}, uids=0, fpr=None)
                    last = ("pub", f)
                elif f[0] == "sub" and cur is not None:
                    last = ("sub", f)
                elif f[0] == "fpr" and cur is not None and last:
                    if last[0] == "pub":
                        cur["fpr"] = f[9]
                        listing[f[9]] = cur
                    else:
                        cur["subs"][f[9]] = (last[1][4], last[1][3])
                    last = None
                elif f[0] == "uid" and cur is not None:
                    cur["uids"] += 1
        judge_pub = "pubkey" in kinds
        for p in pub:
            if not judge_pub:
                break
            what = "pubkey %s sub=%s fmt=%s hash=%s issuer=%s bis=%s" % (p["prim"], p["kv"]["sub"], p["kv"]["fmt"], p["kv"]["hash"], p["kv"]["issuer"], p["kv"]["bis"])
            ok = p["fpr"] in imported
            if p["tag"].startswith("honest"):
                if not ok:
                    # again, alone, for the status lines
                    h2 = os.path.join(root, "single%d" % counter[0]); counter[0] += 1
                    os.mkdir(h2, 0o700)
                    rc, st, out, err = Gpg(h2).run(["--import", p["file"]])
                    other = [s for s in st if s.startswith("IMPORT_OK")]
                    fail("gpg did not import the transferable public key under the library's fingerprint %s (%s): %s" % (p["fpr"], what, _short(st)), p["ln"], [p["file"]])
                    continue
                e = listing.get(p["fpr"])
                if e is None:
                    fail("imported key %s missing from gpg's key listing (%s)" % (p["fpr"], what), p["ln"], [p["file"]])
                    continue
                if e["keyid"].upper() != p["keyid"]:
                    fail("key ID differs: library %s, gpg %s (%s)" % (p["keyid"], e["keyid"], what), p["ln"], [p["file"]])
                    continue
                if e["algo"] != PKALGO.get(p["prim"], "?"):
                    fail("gpg lists public-key algorithm %s for a %s key (%s)" % (e["algo"], p["prim"], what), p["ln"], [p["file"]])
                    continue
                if e["uids"] < 1:
                    fail("gpg lists no user ID for %s (%s)" % (p["fpr"], what), p["ln"], [p["file"]])
                    continue
                if p["subfpr"]:
                    sub = e["subs"].get(p["subfpr"])
                    if sub is None:
                        fail("gpg did not keep the subkey %s (binding signature not accepted or fingerprint differs) (%s); gpg has %s" % (p["subfpr"], what, sorted(e["subs"])), p["ln"], [p["file"]])
                        continue
                    if sub[0].upper() != p["subkeyid"]:
                        fail("subkey ID differs: library %s, gpg %s (%s)" % (p["subkeyid"], sub[0], what), p["ln"], [p["file"]])
                        continue
                p["accepted"] = True
            else:
                if p["r"] and p["r"][0] == "ok":
                    fail("the library itself accepts an altered transferable public key (%s, %s)" % (what, p["tag"]), p["ln"], [p["file"]])
                if p["tag"] == "tamper:binding":
                    e = listing.get(p["fpr"])
                    if e is not None and p["subfpr"] in e["subs"]:
                        fail("gpg kept a subkey whose key material was altered after binding (%s)" % what, p["ln"], [p["file"]])
                    else:
                        rej("pubkey", p["prim"], p["tag"])
                elif ok:
                    fail("gpg imported an altered transferable public key (%s, %s)" % (what, p["tag"]), p["ln"], [p["file"]])
                else:
                    rej("pubkey", p["prim"], p["tag"])

        # --list-packets: every packet parsed, the expected tag sequence
        def listpk(p):
            rc, st, out, err = gpg.run(["--list-packets", p["file"]])
            tags = [int(m.group(1)) for m in re.finditer(rb"^# off=\d+ ctb=[0-9a-f]+ tag=(\d+) hlen=\d+ plen=\d+", out, re.M)]
            return rc, tags, st
        if judge_pub:
            hon = [p for p in pub if p["tag"].startswith("honest")]
            for p, (rc, tags, st) in zip(hon, _pmap(jobs, listpk, hon)):
                want = [6, 13, 2] + ([14, 2] if p["subfpr"] else [])
                what = "pubkey %s sub=%s fmt=%s" % (p["prim"], p["kv"]["sub"], p["kv"]["fmt"])
                if rc != 0 or tags != want:
                    fail("gpg --list-packets: exit code %d, packet tags %s, expected %s (%s)" % (rc, tags, want, what), p["ln"], [p["file"]])
                elif p.get("accepted"):
                    acc("pubkey", p["prim"], "sub=" + p["kv"]["sub"], p["kv"]["fmt"], "hash=" + p["kv"]["hash"])

        # ------------------------------------------------------------------ secret keys (imported for pkenc as well)
        sec = []
        passes = {}          # primary fpr -> passphrase
        for (a, r, ln) in recs["seckey"]:
            kv = _kv(a)
            pw = _b(a[5])
            s = dict(a=a, r=r, ln=ln, kv=kv, tag=_tag(a), prim=a[1], pw=pw, file=put(_b(a[6]), "asc" if kv["fmt"] == "asc" else "pgp"),
                     fpr=a[7].upper(), subfpr=a[8].upper() if a[8] != "-" else None)
            sec.append(s)

        def impsec(s):
            args = (["--passphrase=" + s["pw"].decode("utf-8", "surrogateescape")] if s["pw"] else []) + ["--import", s["file"]]
            return gpg.run(args)
        need_sec = ("seckey" in kinds) or ("pkenc" in kinds and recs["pkenc"])
        if sec and need_sec:
            # one after the other: the agent is started by the first call
            res = [impsec(sec[0])] + _pmap(min(jobs, 4), impsec, sec[1:])
            rc, st, out, err = gpg.run(["--with-colons", "--fingerprint", "--fingerprint", "--list-secret-keys"])
            have = {}
            last = None
            for l in out.decode("latin1").split("\n"):
                f = l.split(":")
                if f[0] in ("sec", "ssb"):
                    last = f
                elif f[0] == "fpr" and last:
                    have[f[9]] = (last[0], last[14] if len(last) > 14 else "")
                    last = None
            for s, (rc, st, out, err) in zip(sec, res):
                what = "seckey %s sub=%s fmt=%s prot=%s" % (s["prim"], s["kv"]["sub"], s["kv"]["fmt"], s["kv"]["prot"])
                okl = [x.split() for x in st if x.startswith("IMPORT_OK ")]
                ok = any(len(w) >= 3 and w[2].upper() == s["fpr"] and (int(w[1]) & 16) for w in okl)
                mine = "seckey" in kinds or s["tag"] == "aux"
                if not ok:
                    if mine:
                        fail("gpg did not import the transferable secret key %s (%s, %s): exit code %d, %s" % (s["fpr"], what, s["tag"], rc, _short([x for x in st if not x.startswith("KEY_CONSIDERED")])), s["ln"], [s["file"]])
                    continue
                missing = [f for f in (s["fpr"], s["subfpr"]) if f and (f not in have or have[f][1] == "#")]
                if missing:
                    if mine:
                        fail("secret part missing in gpg after import for %s (%s)" % (missing, what), s["ln"], [s["file"]])
                    continue
                passes[s["fpr"]] = s["pw"]
                if "seckey" in kinds and s["tag"] == "honest":
                    acc("seckey", s["prim"], "sub=" + s["kv"]["sub"], s["kv"]["fmt"], "prot=" + s["kv"]["prot"])

        # ------------------------------------------------------------------ detached signatures
        if "detsig" in kinds:
            for a in nohash:
                observe("the file overload of the document hash refuses document class %s (%s)" % (_tag(a).split(":", 1)[1], a[2]))
        if "detsig" in kinds and recs["detsig"]:
            items = []
            for (a, r, ln) in recs["detsig"]:
                kv = _kv(a)
                items.append(dict(a=a, r=r, ln=ln, kv=kv, tag=_tag(a), key=a[1], fpr=a[2].upper(), doc=put(_b(a[9]), "doc"),
                                  sig=put(_b(a[10]), "asc" if kv["fmt"] == "asc" else "sig")))

            def verify(it):
                return gpg.run(["--verify", it["sig"], it["doc"]])
            for it, (rc, st, out, err) in zip(items, _pmap(jobs, verify, items)):
                kv = it["kv"]
                what = "detsig %s mode=%s hash=%s fmt=%s issuer=%s exp=%s via=%s doclen=%d" % (it["key"], kv["mode"], kv["hash"], kv["fmt"], kv["issuer"], kv["exp"], kv["via"], os.path.getsize(it["doc"]))
                valid = [s.split() for s in st if s.startswith("VALIDSIG ")]
                good = rc == 0 and _has(st, "GOODSIG") and any(len(w) >= 11 and w[-1].upper() == it["fpr"] for w in valid)
                anygood = _has(st, "GOODSIG") or _has(st, "VALIDSIG") or rc == 0
                tag = it["tag"]
                if tag.startswith("honest:text-exotic:"):
                    observe("text-mode document class %s (via=%s): the library's signature is %s for gpg" % (tag.split(":", 2)[2], kv["via"], "good" if good else "NOT good (%s)" % ",".join(sorted({s.split()[0] for s in st if s.split()[0] in ("BADSIG", "ERRSIG", "GOODSIG")}))))
                elif tag == "honest:nul" and kv["via"] == "file" and kv["mode"] == "text" and not good:
                    # findings/gpgx_findings.txt G3: HashComputeFile(text) drops the rest of a line behind a NUL octet
                    fail("G3 (F56, repaired): text-mode signature made with the file overload over a document with a NUL octet is %s for gpg" % ",".join(sorted({s.split()[0] for s in st if s.split()[0] in ("BADSIG", "ERRSIG")})), it["ln"], [it["sig"], it["doc"]])
                elif tag.startswith("honest"):
                    if good:
                        acc("detsig", it["key"], kv["mode"], "hash=" + kv["hash"], kv["fmt"], "via=" + kv["via"])
                        cov.setdefault("detsig_doc_classes", {}).setdefault(kv["mode"], set()).add(tag.split(":", 1)[1] if ":" in tag else "")
                    else:
                        fail("gpg does not accept the library's detached signature (%s, %s): exit code %d, %s" % (what, tag, rc, _short([s for s in st if not s.startswith(("NEWSIG", "KEY_CONSIDERED"))])), it["ln"], [it["sig"], it["doc"]])
                elif tag == "tamper:left16":
                    # the left 16 bits of the digest are outside the hashed data and not part of the signature value: gpg 2.2 does not
                    # compare them, the library does; nothing is demanded of gpg here
                    observe("signature packet with altered left-16-bits field: gpg says %s (the library refuses it)" % ("good" if anygood else "bad"))
                else:
                    if it["r"] and it["r"][0] == "ok":
                        if tag == "tamper:doc-after-nul":
                            fail("G3 (F56, repaired): the library's own Verify(key, filename) accepts a text document altered behind a NUL octet", it["ln"], [it["sig"], it["doc"]])
                        else:
                            fail("the library itself accepts an altered detached signature / document (%s, %s)" % (what, tag), it["ln"], [it["sig"], it["doc"]])
                    if anygood:
                        fail("gpg accepts an altered detached signature / document (%s, %s): exit code %d, %s" % (what, tag, rc, _short(st)), it["ln"], [it["sig"], it["doc"]])
                    else:
                        rej("detsig", it["key"], tag)

        # ------------------------------------------------------------------ symmetric messages
        def decrypt(it):
            out = it["msg"] + ".out"
            args = (["--passphrase=" + it["pw"].decode("utf-8", "surrogateescape")] if it["pw"] is not None and it["pw"] != b"" else []) + ["--yes", "-o", out, "--decrypt", it["msg"]]
            rc, st, so, err = gpg.run(args)
            try:
                data = open(out, "rb").read()
            except OSError:
                data = None
            return rc, st, data
        if "symenc" in kinds and recs["symenc"]:
            items = []
            for (a, r, ln) in recs["symenc"]:
                kv = _kv(a)
                items.append(dict(a=a, r=r, ln=ln, kv=kv, tag=_tag(a), pw=_b(a[6]), msg=put(_b(a[7]), "asc" if kv["fmt"] == "asc" else "gpg"), plain=_b(a[8])))
            for it, (rc, st, data) in zip(items, _pmap(jobs, decrypt, items)):
                kv = it["kv"]
                what = "symenc cipher=%s enc=%s s2k=%s len=%s fmt=%s" % (kv["cipher"], kv["enc"], kv["s2k"], kv["len"], kv["fmt"])
                okay = rc == 0 and _has(st, "DECRYPTION_OKAY") and _has(st, "GOODMDC") and not _has(st, "DECRYPTION_FAILED")
                if it["tag"].startswith("honest"):
                    if okay and data == it["plain"]:
                        acc("symenc", "cipher=" + kv["cipher"], "enc=" + kv["enc"], "s2k=" + ":".join(kv["s2k"].split(":")[:2]))
                        cov.setdefault("symenc_lengths", set()).add(int(kv["len"]))
                    elif okay:
                        fail("gpg decrypted the message to other octets than the plaintext (%s): %d octets instead of %d" % (what, len(data or b""), len(it["plain"])), it["ln"], [it["msg"]])
                    else:
                        fail("gpg does not decrypt the library's symmetric message (%s): exit code %d, %s" % (what, rc, _short([s for s in st if not s.startswith("NEED_PASSPHRASE")])), it["ln"], [it["msg"]])
                else:
                    if it["r"] and it["r"][0] == "ok":
                        fail("the library itself accepts an altered symmetric message (%s, %s)" % (what, it["tag"]), it["ln"], [it["msg"]])
                    if rc == 0 or _has(st, "DECRYPTION_OKAY") or _has(st, "GOODMDC"):
                        fail("gpg accepts an altered symmetric message (%s, %s): exit code %d, %s" % (what, it["tag"], rc, _short(st)), it["ln"], [it["msg"]])
                    else:
                        rej("symenc", "cipher=" + kv["cipher"], it["tag"])

        # ------------------------------------------------------------------ messages to a public key
        if "pkenc" in kinds and recs["pkenc"]:
            items = []
            for (a, r, ln) in recs["pkenc"]:
                kv = _kv(a)
                items.append(dict(a=a, r=r, ln=ln, kv=kv, tag=_tag(a), rcp=a[1], prim=a[2].upper(), kid=a[3], pw=passes.get(a[2].upper()),
                                  msg=put(_b(a[7]), "asc" if kv["fmt"] == "asc" else "gpg"), plain=_b(a[8])))
            for it, (rc, st, data) in zip(items, _pmap(min(jobs, 4), decrypt, items)):
                kv = it["kv"]
                what = "pkenc %s keyid=%s len=%s fmt=%s" % (it["rcp"], it["kid"], kv["len"], kv["fmt"])
                okay = rc == 0 and _has(st, "DECRYPTION_OKAY") and _has(st, "GOODMDC") and not _has(st, "DECRYPTION_FAILED")
                if it["tag"].startswith("honest"):
                    if it["prim"] not in passes:
                        fail("no secret key in gpg for the recipient of a pkenc message (%s): the seckey artefact was not imported" % what, it["ln"], [it["msg"]])
                    elif okay and data == it["plain"]:
                        acc("pkenc", it["rcp"], it["tag"], "len=" + kv["len"])
                    elif okay:
                        fail("gpg decrypted the public-key message to other octets than the plaintext (%s)" % what, it["ln"], [it["msg"]])
                    else:
                        fail("gpg does not decrypt the library's public-key message (%s, %s): exit code %d, %s" % (what, it["tag"], rc, _short([s for s in st if not s.startswith(("KEY_CONSIDERED", "ENC_TO"))])), it["ln"], [it["msg"]])
                else:
                    if it["r"] and it["r"][0] == "ok":
                        fail("the library itself accepts an altered public-key message (%s, %s)" % (what, it["tag"]), it["ln"], [it["msg"]])
                    if rc == 0 or _has(st, "DECRYPTION_OKAY") or _has(st, "GOODMDC"):
                        fail("gpg accepts an altered public-key message (%s, %s): exit code %d, %s" % (what, it["tag"], rc, _short(st)), it["ln"], [it["msg"]])
                    else:
                        rej("pkenc", it["rcp"], it["tag"])

        # ------------------------------------------------------------------ armor, library -> gpg
        if "armor" in kinds and recs["armor"]:
            items = []
            for (a, r, ln) in recs["armor"]:
                kv = _kv(a)
                items.append(dict(a=a, r=r, ln=ln, kv=kv, data=_b(a[4]), file=put(_b(a[5]), "asc")))

            def dearmor(it):
                out = it["file"] + ".bin"
                rc, st, so, err = gpg.run(["--yes", "-o", out, "--dearmor", it["file"]])
                try:
                    data = open(out, "rb").read()
                except OSError:
                    data = None
                return rc, data
            for it, (rc, data) in zip(items, _pmap(jobs, dearmor, items)):
                kv = it["kv"]
                if rc == 0 and data == it["data"]:
                    acc("armor", "type=" + kv["type"], "hdr=" + kv["hdr"])
                    cov.setdefault("armor_lengths", set()).add(int(kv["len"]))
                else:
                    fail("gpg --dearmor of the library's armor (type %s, %s octets, headers %s): exit code %d, %s" % (kv["type"], kv["len"], kv["hdr"], rc, "no output" if data is None else "%d octets, %s" % (len(data), "equal" if data == it["data"] else "different")), it["ln"], [it["file"]])

        # ------------------------------------------------------------------ gpg -> library (second harness invocation)
        rnd = random.Random(seed * 7919 + 11)
        env = dict(os.environ, ASAN_OPTIONS="detect_leaks=0:use_sigaltstack=0")

        def harness(args):
            try:
                p = subprocess.run([exe, "gpgx"] + args, stdout=subprocess.PIPE, stderr=subprocess.PIPE, env=env, timeout=600)
            except (OSError, subprocess.TimeoutExpired) as e:
                return 125, {}, str(e)
            res = {}
            for l in p.stdout.decode("latin1").split("\n"):
                op, a, r = _toks(l)
                if op == "prop.gpgx" and len(a) >= 2:
                    res[_b(a[1]).decode()] = r
            return p.returncode, res, p.stderr.decode("latin1")[-1500:]
        if "s2k" in kinds and (exe is None or not os.path.exists(exe)):
            cov["notes"].append("s2k: no harness binary (no `prop.gpgx exe` line), gpg -> library direction skipped")
        elif "s2k" in kinds:
            cases = []
            ciphers = sorted(CIPHER_NAMES)
            lens = [1, 2, 15, 16, 17, 100, 1000, 9000, 70000]
            n = 0
            for c in ciphers:
                for h in (2, 8, 9, 10, 11, 3):
                    n += 1
                    if h == 3 and n % 3:
                        continue
                    if not thorough and (n + c) % 2:
                        continue        # quick tier: half of the cipher x digest table
                    mode = 1 if n % 5 == 0 else 3
                    count = rnd.choice([1024, 65536, 65011712, 1000000, 3014656, 100000]) if mode == 3 else 0
                    if count == 65011712 and (n % 4 or (not thorough and c != 9)):
                        count = 2000000     # 62 MiB through every hash context: rarely (the harness runs under ASan)
                    pw = rnd.choice(["x", "correct horse battery staple", "päss wört", "z" * 250, "pw%d" % rnd.randrange(10 ** 6), "".join(chr(33 + rnd.randrange(94)) for _ in range(1 + rnd.randrange(60)))])
                    ln_ = lens[n % len(lens)]
                    plain = bytes(rnd.getrandbits(8) for _ in range(ln_))
                    cases.append(dict(cipher=c, hash=h, mode=mode, count=count, pw=pw, plain=plain, armor=(n % 4 == 0), compress=(n % 11 == 0)))
            # the empty file (findings/gpgx_findings.txt G2: a literal data packet without data octets was refused; fix 2251014)
            cases.append(dict(cipher=9, hash=8, mode=3, count=65536, pw="empty", plain=b"", armor=False, compress=False))

            def enc(cs):
                src = put(cs["plain"], "txt")
                dst = src + (".asc" if cs["armor"] else ".gpg")
                args = ["--passphrase=" + cs["pw"], "--yes", "-o", dst, "--s2k-mode", str(cs["mode"]), "--s2k-digest-algo", HASH_NAMES[cs["hash"]],
                        "--s2k-cipher-algo", CIPHER_NAMES[cs["cipher"]], "--cipher-algo", CIPHER_NAMES[cs["cipher"]],
                        "--compress-algo", "zip" if cs["compress"] else "none"]
                if cs["mode"] == 3:
                    args += ["--s2k-count", str(cs["count"])]
                if cs["armor"]:
                    args += ["--armor"]
                rc, st, so, err = gpg.run(args + ["--symmetric", src])
                cs["file"] = dst
                return rc, st, err
            encs = _pmap(jobs, enc, cases)
            usable = []
            for cs, (rc, st, err) in zip(cases, encs):
                if rc != 0 or not os.path.exists(cs["file"]):
                    note("s2k: gpg could not encrypt with %s: %s" % (CIPHER_NAMES[cs["cipher"]], err.decode("latin1")[-120:].strip()))
                else:
                    usable.append(cs)
            args = []
            for cs in usable:
                args += ["--decrypt-file", cs["file"], "--pass", cs["pw"].encode("utf-8").hex() or "-"]
            rc, res, err = harness(args) if usable else (0, {}, "")
            if usable and rc != 0:
                fail("second harness invocation (library decrypts gpg's messages) ended with exit code %d: %s" % (rc, err[-600:]))
            for cs in usable:
                what = "gpg --symmetric cipher=%s s2k-mode=%d digest=%s count=%d len=%d armor=%d compress=%d" % (CIPHER_NAMES[cs["cipher"]], cs["mode"], HASH_NAMES[cs["hash"]], cs["count"], len(cs["plain"]), cs["armor"], cs["compress"])
                r = res.get(cs["file"])
                good = bool(r) and r[0] == "ok" and len(r) > 1 and _b(r[1]) == cs["plain"]
                if cs["compress"] and r and r[0] == "compressed" and len(r) > 1:
                    # the library hands out the body of the compressed data packet (decompression is the application's job):
                    # inflate it here and look for the plaintext at the end of the literal packet inside
                    import zlib
                    body = _b(r[1])
                    inner = None
                    for cand in (body, body[1:]):
                        try:
                            inner = zlib.decompress(cand, -15)
                            break
                        except zlib.error:
                            pass
                    if inner is not None and (inner.endswith(cs["plain"]) if len(cs["plain"]) < 8000 else len(inner) >= len(cs["plain"])):
                        acc("s2k", "cipher=%d" % cs["cipher"], "hash=%d" % cs["hash"], "mode=%d" % cs["mode"], "compressed")
                    else:
                        fail("the compressed data the library hands out for a gpg message does not inflate to the plaintext (%s)" % what, None, [cs["file"]])
                elif good:
                    acc("s2k", "cipher=%d" % cs["cipher"], "hash=%d" % cs["hash"], "mode=%d" % cs["mode"])
                else:
                    fail("the library does not decrypt what gpg encrypted (%s): %s" % (what, " ".join(r or ["(no answer)"])[:80]), None, [cs["file"]])
        if "armor" in kinds and exe and os.path.exists(exe):
            items = []
            for n in (list(range(0, 70)) + [100, 190, 191, 192, 193, 1000, 5000]) if thorough else (list(range(0, 20)) + [47, 48, 49, 50, 63, 64, 65, 191, 192, 1000]):
                data = bytes(rnd.getrandbits(8) for _ in range(n))
                items.append(dict(data=data, src=put(data, "raw")))

            def enarmor(it):
                it["file"] = it["src"] + ".asc"
                rc, st, so, err = gpg.run(["--yes", "-o", it["file"], "--enarmor", it["src"]])
                return rc
            rcs = _pmap(jobs, enarmor, items)
            items = [it for it, rc in zip(items, rcs) if rc == 0 and os.path.exists(it["file"])]
            args = []
            for it in items:
                args += ["--dearmor-file", it["file"]]
            rc, res, err = harness(args) if items else (0, {}, "")
            if items and rc != 0:
                fail("second harness invocation (library decodes gpg's armor) ended with exit code %d: %s" % (rc, err[-600:]))
            for it in items:
                r = res.get(it["file"])
                if r and len(r) == 2 and r[0] == "200" and _b(r[1]) == it["data"]:
                    acc("armor", "gpg-enarmor->ArmorDecode")
                elif len(it["data"]) == 0:
                    # findings/gpgx_findings.txt G1: blank line directly followed by the checksum line
                    deviation("G1: ArmorDecode refuses `gpg --enarmor` of an EMPTY file: %s" % " ".join(r or ["(no answer)"])[:40], [it["file"]])
                else:
                    fail("ArmorDecode of `gpg --enarmor` output for %d octets: %s" % (len(it["data"]), " ".join(r or ["(no answer)"])[:80]), None, [it["file"]])
    finally:
        gpg.kill_agent()
        for d in os.listdir(root):
            if d.startswith("single"):
                Gpg(os.path.join(root, d)).kill_agent()
        cov["gpg_calls"] = gpg.calls
        shutil.rmtree(root, ignore_errors=True)
        if extra_home:
            shutil.rmtree(extra_home, ignore_errors=True)
    for k in ("symenc_lengths", "armor_lengths"):
        if k in cov:
            cov[k] = sorted(cov[k])
    if "detsig_doc_classes" in cov:
        cov["detsig_doc_classes"] = {m: sorted(v) for m, v in cov["detsig_doc_classes"].items()}
    COVERAGE = cov
    return fails, cov


def judge(lines, tmp_parent=None, kinds=None, jobs=None):
    return judge2(lines, tmp_parent, kinds, jobs)[0]


# ---------------------------------------------------------------------- props.py conventions
def pred_gpgx(line, st):
    if line.startswith("prop.gpgx "):
        st.setdefault("gpgx_lines", []).append(line)
    return None


def gpgx_requirements(cov, kinds):
    """the quantifier of the cross-check: what must have been accepted at least once"""
    acc = cov.get("accepted", {})
    miss = []

    def keys(kind):
        return set(acc.get(kind, {}))
    if "pubkey" in kinds:
        k = keys("pubkey")
        for prim in ("rsa", "dsa"):
            for sub in ("none", "elg"):
                for fmt in ("bin", "asc"):
                    if not any(x.startswith(prim) and "/sub=%s/%s/" % (sub, fmt) in x for x in k):
                        miss.append("pubkey %s sub=%s %s" % (prim, sub, fmt))
    if "seckey" in kinds:
        k = keys("seckey")
        for sub in ("none", "elg"):
            for prot in ("none", "s2k"):
                if not any("/sub=%s/" % sub in x and x.endswith("prot=" + prot) for x in k):
                    miss.append("seckey sub=%s prot=%s" % (sub, prot))
    if "detsig" in kinds:
        k = keys("detsig")
        for key in ("rsa", "dsa"):
            for mode in ("bin", "text"):
                for h in ("8", "9", "10"):
                    if not any(x.startswith(key) and "/%s/hash=%s/" % (mode, h) in x for x in k):
                        miss.append("detsig %s %s hash=%s" % (key, mode, h))
        if not cov.get("rejected_tampered", {}).get("detsig"):
            miss.append("detsig tamper")
    if "symenc" in kinds:
        k = keys("symenc")
        for c in ("2", "3", "4", "7", "8", "9", "10", "11", "12", "13"):
            if not any(x.startswith("cipher=%s/" % c) for x in k):
                miss.append("symenc cipher=%s" % c)
        if not set(cov.get("symenc_lengths", [])) >= {0, 1, 15, 16, 17, 1000}:
            miss.append("symenc lengths")
        if not cov.get("rejected_tampered", {}).get("symenc"):
            miss.append("symenc tamper")
    if "pkenc" in kinds:
        k = keys("pkenc")
        for rcp in ("rsa", "elg"):
            if not any(x.startswith(rcp + "/") for x in k):
                miss.append("pkenc " + rcp)
    if "armor" in kinds:
        if not set(cov.get("armor_lengths", [])) >= set(range(0, 201)):
            miss.append("armor lengths 0..200")
    if "s2k" in kinds and not any(n.startswith("s2k: no harness binary") for n in cov.get("notes", [])):
        k = keys("s2k")
        for c in ("2", "3", "4", "7", "8", "9", "10", "11", "12", "13"):
            if not any(x.startswith("cipher=%s/" % c) for x in k):
                miss.append("s2k cipher=%s" % c)
    return miss


def gpgx_final(st, kinds=None, tmp_parent=None):
    lines = st.get("gpgx_lines")
    if not lines:
        return None
    kinds = tuple(kinds or ALL_KINDS)
    fails, cov = judge2(lines, tmp_parent=tmp_parent, kinds=kinds)
    st["gpgx_coverage"] = cov
    if "gpg-missing" in cov["notes"]:
        return None
    if fails:
        return "GnuPG cross-check: %d disagreement(s); first: %s" % (len(fails), " | ".join(fails[:3]))
    miss = gpgx_requirements(cov, kinds)
    if miss:
        return "GnuPG cross-check: not exercised / not accepted: %s" % ", ".join(miss[:8])
    return None


if __name__ == "__main__":
    import json
    import sys
    import time
    t0 = time.time()
    kinds = None
    args = sys.argv[1:]
    keep = None
    if "--kinds" in args:
        kinds = args[args.index("--kinds") + 1].split(",")
    if "--keep" in args:
        keep = args[args.index("--keep") + 1]
    path = [a for a in args if not a.startswith("--") and a not in ((kinds and ",".join(kinds)) or "", keep or "")]
    lines = open(path[0]).read().split("\n") if path else sys.stdin.read().split("\n")
    fails, cov = judge2(lines, kinds=kinds, keep_failing=keep)
    for f in fails:
        print("FAIL", f)
    miss = gpgx_requirements(cov, kinds or ALL_KINDS) if "gpg-missing" not in cov["notes"] else []
    print(json.dumps(cov, indent=1, sort_keys=True, default=list))
    print("failures: %d; missing coverage: %s; gpg calls: %d; %.1f s" % (len(fails), miss, cov["gpg_calls"], time.time() - t0))
