# C19, second part (area pgpenc): an independent reference for the OpenPGP packet encoders, written from
# RFC 4880 (sections 3.2, 4.2, 5.1, 5.2.3, 5.5, 5.7, 5.9, 5.11, 5.13, 5.14, 12.2), RFC 6637 (sections 9, 10)
# and draft-ietf-openpgp-rfc4880bis (V5 keys and signatures, AEAD encrypted data, EdDSA) on top of
# struct / hashlib only.  Every traced packet is re-encoded from its fields and compared byte for byte;
# every pgpenc.dec line is compared with the fields of the encode line it belongs to.
import hashlib

# ------------------------------------------------------------------ RFC 4880 primitives
def _b(s):
    return b"" if s == "-" else bytes.fromhex(s)


def _hx(b):
    return b.hex() if b else "-"


def _len(n):
    """new-format body length, shortest form (4.2.2)"""
    if n < 192:
        return bytes([n])
    if n < 8384:
        n -= 192
        return bytes([(n >> 8) + 192, n & 0xFF])
    return b"\xff" + n.to_bytes(4, "big")


def _pkt(tag, body):
    return bytes([0xC0 | tag]) + _len(len(body)) + body


def _mpi(v):
    n = v.bit_length()
    return n.to_bytes(2, "big") + v.to_bytes((n + 7) // 8, "big")


def _t4(t):
    return (t & 0xFFFFFFFF).to_bytes(4, "big")


def _ints(s):
    s = s[1:-1]
    return [int(x) for x in s.split(",")] if s else []


def _sub(t, crit, body):
    return _len(len(body) + 1) + bytes([t | (0x80 if crit else 0)]) + body


MPI_MAX = 1 << 65535


# ------------------------------------------------------------------ AES-256 (FIPS 197), CFB (for the protected secret keys)
def _aes_tables():
    sbox = [0] * 256
    p = q = 1
    while True:
        p = p ^ ((p << 1) & 0xFF) ^ (0x1B if p & 0x80 else 0)
        q ^= q << 1; q ^= q << 2; q ^= q << 4; q &= 0xFF
        if q & 0x80:
            q ^= 0x09
        x = q ^ ((q << 1) | (q >> 7)) & 0xFF ^ ((q << 2) | (q >> 6)) & 0xFF ^ ((q << 3) | (q >> 5)) & 0xFF ^ ((q << 4) | (q >> 4)) & 0xFF
        sbox[p] = (x ^ 0x63) & 0xFF
        if p == 1:
            break
    sbox[0] = 0x63
    return sbox


_SBOX = _aes_tables()


def _xt(a):
    return ((a << 1) ^ 0x1B) & 0xFF if a & 0x80 else a << 1


def _aes256_block(key, block):
    w = [list(key[4 * i:4 * i + 4]) for i in range(8)]
    rc = 1
    for i in range(8, 60):
        t = list(w[i - 1])
        if i % 8 == 0:
            t = [_SBOX[t[1]] ^ rc, _SBOX[t[2]], _SBOX[t[3]], _SBOX[t[0]]]
            rc = _xt(rc)
        elif i % 8 == 4:
            t = [_SBOX[x] for x in t]
        w.append([a ^ b for a, b in zip(w[i - 8], t)])
    s = [block[i] ^ w[i // 4][i % 4] for i in range(16)]
    for r in range(1, 15):
        s = [_SBOX[x] for x in s]
        s = [s[(i + 4 * (i % 4)) % 16] for i in range(16)]
        if r < 14:
            o = []
            for c in range(4):
                a = s[4 * c:4 * c + 4]
                o += [_xt(a[0]) ^ _xt(a[1]) ^ a[1] ^ a[2] ^ a[3], a[0] ^ _xt(a[1]) ^ _xt(a[2]) ^ a[2] ^ a[3],
                      a[0] ^ a[1] ^ _xt(a[2]) ^ _xt(a[3]) ^ a[3], _xt(a[0]) ^ a[0] ^ a[1] ^ a[2] ^ _xt(a[3])]
            s = o
        s = [s[i] ^ w[4 * r + i // 4][i % 4] for i in range(16)]
    return bytes(s)


def _cfb_decrypt(key, iv, ct):
    out = b""
    fr = iv
    for i in range(0, len(ct), 16):
        ks = _aes256_block(key, fr)
        blk = ct[i:i + 16]
        out += bytes(a ^ b for a, b in zip(blk, ks))
        fr = blk
    return out


def _s2k_iter_sha256(pw, salt, c, n):
    count = (16 + (c & 15)) << ((c >> 4) + 6)
    data = salt + pw
    out = b""
    pre = 0
    while len(out) < n:
        h = hashlib.sha256(b"\0" * pre)
        total = max(count, len(data))
        full, part = divmod(total, len(data))
        h.update(data * full + data[:part])
        out += h.digest()
        pre += 1
    return out[:n]


# ------------------------------------------------------------------ reference encoders
def _keymat(algo, p, q, g, y):
    if algo in (1, 2, 3):
        return [p, q]
    if algo == 16:
        return [p, g, y]
    if algo == 17:
        return [p, q, g, y]
    return None


def _pub_body(ver, t, algo, mat):
    if ver == 5:
        return b"\x05" + _t4(t) + bytes([algo]) + len(mat).to_bytes(4, "big") + mat
    return b"\x04" + _t4(t) + bytes([algo]) + mat


def _issuer_subs(issuer, crit):
    if len(issuer) == 20:
        return _sub(16, crit, issuer[12:])
    if len(issuer) == 8:
        return _sub(16, crit, issuer)
    return b""


def _fpr_sub(issuer):
    return _sub(33, False, b"\x04" + issuer) if len(issuer) == 20 else b""


def _notation(n, v):
    return _sub(20, False, b"\x80\0\0\0" + len(n).to_bytes(2, "big") + len(v).to_bytes(2, "big") + n + v)


def _hashed_part(ver, typ, pk, h, area):
    return bytes([ver, typ, pk, h]) + (len(area) & 0xFFFF).to_bytes(2, "big") + area


def _prefs(flags, bis):
    return (_sub(21, False, bytes([10, 9, 8])) + _sub(22, False, b"\x01") + _sub(23, False, b"\x80") +
            _sub(27, False, flags) + _sub(30, False, bytes([3 if bis else 1])))


def _opt_time(t, st):
    return _sub(t, False, _t4(st)) if st != 0 else b""


def _nts(s):
    s = s[1:-1]
    return [tuple(_b(x) for x in e.split(":")) for e in s.split(",")] if s else []


def _ref_prep(op, a):
    k = op[len("pgpenc.prep."):]
    if k == "self":
        typ, pk, h, st, ke = (int(x) for x in a[:5]); flags, issuer, bis = _b(a[5]), _b(a[6]), a[7] == "1"
        area = (_sub(2, False, _t4(st)) + _opt_time(9, ke) + _sub(11, False, bytes([9, 10])) + _issuer_subs(issuer, False) +
                _prefs(flags, bis) + _fpr_sub(issuer) + (_sub(34, False, bytes([1, 2])) if bis else b""))
        return 4, _hashed_part(4, typ, pk, h, area), area
    if k == "revoker":
        pk, h, st = int(a[0]), int(a[1]), int(a[2]); flags, issuer, pk2, rev, bis = _b(a[3]), _b(a[4]), int(a[5]), _b(a[6]), a[7] == "1"
        area = (_sub(2, False, _t4(st)) + _sub(11, False, bytes([9, 10])) + (_sub(12, True, bytes([0x80, pk2]) + rev) if rev else b"") +
                _issuer_subs(issuer, False) + _prefs(flags, bis) + _fpr_sub(issuer) + (_sub(34, False, bytes([1, 2])) if bis else b""))
        return 4, _hashed_part(4, 0x1F, pk, h, area), area
    if k == "detached":
        ver, typ, pk, h, st, se = (int(x) for x in a[:6]); policy, issuer = _b(a[6]), _b(a[7])
        pol = _sub(26, False, policy) if policy else b""
        if ver == 5:
            v = 4 if len(issuer) == 20 else (5 if len(issuer) == 32 else 0)
            area = _sub(2, False, _t4(st)) + _opt_time(3, se) + pol + _sub(33, False, bytes([v]) + issuer)
        else:
            f = _sub(33, False, b"\x04" + issuer) if len(issuer) == 20 else (_sub(33, False, b"\x05" + issuer) if len(issuer) == 32 else b"")
            area = _sub(2, False, _t4(st)) + _opt_time(3, se) + _issuer_subs(issuer, False) + pol + f
        return ver, _hashed_part(ver, typ, pk, h, area), area
    if k == "revocation":
        typ, pk, h, st, rc = (int(x) for x in a[:5]); reason, issuer = _b(a[5]), _b(a[6])
        area = _sub(2, False, _t4(st)) + _issuer_subs(issuer, False) + _sub(29, False, bytes([rc]) + reason) + _fpr_sub(issuer)
        return 4, _hashed_part(4, typ, pk, h, area), area
    if k == "cert":
        typ, pk, h, st, se = (int(x) for x in a[:5]); policy, issuer = _b(a[5]), _b(a[6])
        area = (_sub(2, False, _t4(st)) + _opt_time(3, se) + _issuer_subs(issuer, False) + (_sub(26, False, policy) if policy else b"") + _fpr_sub(issuer))
        return 4, _hashed_part(4, typ, pk, h, area), area
    if k in ("timestamp", "timestamp2", "attest"):
        pk, h, st = int(a[0]), int(a[1]), int(a[2]); policy, issuer = _b(a[3]), _b(a[4])
        nts = b"".join(_notation(n, v) for (n, v) in _nts(a[-1]))
        pol = _sub(26, False, policy) if policy else b""
        if k == "timestamp":
            target = _sub(31, True, bytes([int(a[5]), int(a[6])]) + _b(a[7]))
        elif k == "timestamp2":
            target = _sub(32, True, _b(a[5]))
        if k == "attest":
            area = _sub(2, True, _t4(st)) + _issuer_subs(issuer, True) + nts + pol + _fpr_sub(issuer) + _sub(37, True, _b(a[5]))
            return 4, _hashed_part(4, 0x16, pk, h, area), area
        area = _sub(2, True, _t4(st)) + _sub(7, True, b"\0") + _issuer_subs(issuer, True) + nts + pol + target + _fpr_sub(issuer)
        return 4, _hashed_part(4, 0x40, pk, h, area), area
    return None


def _parse_area(area):
    """independent subpacket parser (5.2.3.1): list of (type, critical, body) or None"""
    out = []
    i = 0
    while i < len(area):
        a = area[i]
        if a < 192:
            n, i = a, i + 1
        elif a < 255:
            if i + 1 >= len(area):
                return None
            n, i = ((a - 192) << 8) + area[i + 1] + 192, i + 2
        else:
            if i + 4 >= len(area):
                return None
            n, i = int.from_bytes(area[i + 1:i + 5], "big"), i + 5
        if n == 0 or i + n > len(area):
            return None
        out.append((area[i] & 0x7F, bool(area[i] & 0x80), area[i + 1:i + n]))
        i += n
    return out


_FIXED_LEN = {2: 4, 3: 4, 9: 4, 16: 8, 7: 1, 4: 1, 25: 1}


def _area_rules(ver, area):
    """what RFC 4880 5.2.3.x / 4880bis ask of a hashed area made by an implementation"""
    subs = _parse_area(area)
    if subs is None:
        return "hashed subpacket area is not a sequence of subpackets"
    types = [t for (t, _, _) in subs]
    if 2 not in types:
        return "no signature creation time in the hashed area (MUST, 5.2.3.4)"
    for (t, c, body) in subs:
        if t in _FIXED_LEN and len(body) != _FIXED_LEN[t]:
            return "subpacket %d has %d octets" % (t, len(body))
        if t == 33 and not ((body[:1] == b"\x04" and len(body) == 21) or (body[:1] == b"\x05" and len(body) == 33)):
            return "issuer fingerprint subpacket: version octet %s with %d octets" % (body[:1].hex(), len(body) - 1)
        if t == 12 and not (len(body) == 22 and body[0] & 0x80):
            return "revocation key subpacket malformed"
        if t == 20 and (len(body) < 8 or len(body) != 8 + int.from_bytes(body[4:6], "big") + int.from_bytes(body[6:8], "big")):
            return "notation data lengths do not add up"
    d = dict((t, body) for (t, _, body) in subs)
    if 16 in d and 33 in d and d[33][:1] == b"\x04" and d[33][-8:] != d[16]:
        return "issuer key id is not the low 64 bits of the issuer fingerprint"
    if 16 in d and 33 in d and d[33][:1] == b"\x05":
        return "issuer key id next to a V5 issuer fingerprint (MUST NOT, 4880bis 5.2.3.5)"
    return None


# ------------------------------------------------------------------ canonical text of decoded packets (as the harness prints it)
def _matstr(algo, ms, oid=None, kdf=None):
    if algo in (1, 2, 3):
        return "rsa [%d,%d]" % tuple(ms)
    if algo == 16:
        return "elg [%d,%d,%d]" % tuple(ms)
    if algo == 17:
        return "dsa [%d,%d,%d,%d]" % tuple(ms)
    if algo in (19, 22):
        return "ec %s [%d]" % (_hx(oid), ms[0])
    return "ecdh %s [%d] %d %d" % (_hx(oid), ms[0], kdf[0], kdf[1])


def _expect_sig_ctx(area):
    """the context fields the subpackets of a library-made hashed area set"""
    subs = _parse_area(area) or []
    d = {}
    for (t, c, body) in subs:
        d[t] = body
    e = {"c": str(int.from_bytes(d.get(2, b"\0"), "big")), "e": str(int.from_bytes(d.get(3, b"\0"), "big")),
         "k": str(int.from_bytes(d.get(9, b"\0"), "big")), "kf": _hx(d.get(27, b"")), "ft": _hx(d.get(30, b"")),
         "psa": _hx(d.get(11, b"")), "pha": _hx(d.get(21, b"")), "pca": _hx(d.get(22, b"")), "paa": _hx(d.get(34, b"")),
         "i": _hx(d.get(16, b"\0" * 8)), "r": "0" if d.get(7) == b"\0" else "1",
         "rc": str(d[29][0]) if 29 in d and d[29] else "0"}
    if 33 in d:
        e["iv"] = str(d[33][0])
        e["if"] = (d[33][1:] + b"\0" * 32)[:32].hex()
    else:
        e["iv"] = "0"; e["if"] = "00" * 32
    return e


REQUIRED = (["pub:%d:v%d:a%d" % (t, v, a) for t in (6, 14) for v in (4, 5) for a in (1, 2, 3, 16, 17, 18, 19, 22)] +
            ["sec:%d:a%d" % (t, a) for t in (5, 7) for a in (16, 17)] + ["secprot:%d:a%d" % (t, a) for t in (5, 7) for a in (16, 17)] +
            ["secexp:a107", "secexp:a108", "secexp:a109", "fpr:v4", "fpr:v5", "uid", "lit", "sed", "seipd", "mdc", "aead:1", "aead:2", "subpkt"] + ["pkesk:a%d" % a for a in (1, 16, 18)] +
            ["sig:v4:a%d" % a for a in (1, 3, 17, 19, 22)] + ["sig:v5:a%d" % a for a in (1, 3, 17, 19, 22)] +
            ["prep.self", "prep.revoker", "prep.detached:v4", "prep.detached:v5", "prep.revocation", "prep.cert", "prep.timestamp",
             "prep.timestamp2", "prep.attest"])
REQ_CLASSES = ["b191", "b192", "b8383", "b8384", "b65535", "b65536", "big"]


def _cls(st, tag):
    for c in tag.split(":"):
        if c in REQ_CLASSES:
            st["classes"].add(c)


def _remember(st, packet_hex, text, reject_ok=None):
    """what PacketDecode must say about this packet: the canonical text, or the reason why a refusal is expected"""
    st["expect"][packet_hex] = (text, reject_ok)
    if len(st["expect"]) > 64:
        st["expect"].pop(next(iter(st["expect"])))


def pred_c19b(line, st0):
    from props import toks, tag_of
    op, a, r = toks(line)
    if not (op.startswith("pgpenc.") or op == "prop.pgpenc"):
        return None
    st = st0.setdefault("c19b", {"cov": set(), "classes": set(), "expect": {}, "n": 0, "dec": 0, "refused": {}})
    tag = tag_of(a)
    if tag:
        a = a[:-1]
    _cls(st, tag)
    st["n"] += 1
    got = r[0] if r else ""

    if op == "prop.pgpenc":
        if a and a[0] == "coverage":
            return c19b_final(st0)
        return None

    if op == "pgpenc.pub" or op == "pgpenc.sec":
        if op == "pgpenc.pub":
            ptag, ver, t, algo = (int(x) for x in a[:4]); p, q, g, y = (int(x) for x in a[4:8]); x = None
        else:
            ptag, t, algo = (int(x) for x in a[:3]); ver = 4; p, q, g, y, x = (int(v) for v in a[3:8])
        ms = _keymat(algo, p, q, g, y)
        if ms is None or (x is not None and algo not in (16, 17)):
            return None if got == "-" else "algorithm %d: a packet was written" % algo
        if any(m >= MPI_MAX for m in ms + ([x] if x is not None else [])):
            st["cov"].add("beyond"); return None          # no OpenPGP encoding exists for such a number
        body = _pub_body(ver, t, algo, b"".join(_mpi(m) for m in ms))
        if x is not None:
            sec = _mpi(x)
            body += b"\0" + sec + (sum(sec) & 0xFFFF).to_bytes(2, "big")
        want = _pkt(ptag, body)
        if _b(got) != want:
            return "%s packet (tag %d, V%d, algorithm %d) differs from RFC 4880 5.5: library %s, reference %s" % (op[7:], ptag, ver, algo, got[:80], want.hex()[:80])
        if x is None:
            st["cov"].add("pub:%d:v%d:a%d" % (ptag, ver, algo))
            _remember(st, got, "pub tag=%d v=%d time=%d algo=%d %s" % (ptag, ver, t & 0xFFFFFFFF, algo, _matstr(algo, ms)))
        else:
            st["cov"].add("sec:%d:a%d" % (ptag, algo))
            _remember(st, got, "sec tag=%d time=%d algo=%d %s secret=[%d]" % (ptag, t & 0xFFFFFFFF, algo, _matstr(algo, ms), x),
                      "secret MPI of value zero" if x == 0 else None)
        return None

    if op == "pgpenc.pubec":
        ptag, ver, t, algo = (int(x) for x in a[:4]); oid = _b(a[4]); q, kh, ks = int(a[5]), int(a[6]), int(a[7])
        if algo not in (18, 19, 22):
            return None if got == "-" else "algorithm %d: a packet was written" % algo
        mat = bytes([len(oid) & 0xFF]) + oid + _mpi(q) + (bytes([3, 1, kh, ks]) if algo == 18 else b"")
        want = _pkt(ptag, _pub_body(ver, t, algo, mat))
        if _b(got) != want:
            return "curve key packet (tag %d, V%d, algorithm %d) differs from RFC 6637 section 9: library %s, reference %s" % (ptag, ver, algo, got[:80], want.hex()[:80])
        st["cov"].add("pub:%d:v%d:a%d" % (ptag, ver, algo))
        _remember(st, got, "pub tag=%d v=%d time=%d algo=%d %s" % (ptag, ver, t & 0xFFFFFFFF, algo, _matstr(algo, [q], oid, (kh, ks))),
                  "curve OID length octet 0 or 255 (reserved)" if len(oid) in (0, 255) else None)
        return None

    if op == "pgpenc.secprot":
        ptag, t, algo = (int(x) for x in a[:3]); p, q, g, y, x = (int(v) for v in a[3:8]); pw = _b(a[8])
        coins = [_b(c) for c in a[9][1:-1].split(",")]
        clog = [tuple(_b(z) for z in e.split(":")) for e in a[11][1:-1].split(",")]
        ms = _keymat(algo, p, q, g, y)
        if len(coins) != 2 or len(coins[0]) != 8 or len(coins[1]) != 16:
            return "protected secret key: random strings drawn are not a salt of 8 and an IV of 16 octets"
        if len(clog) != 1:
            return "protected secret key: %d cipher calls" % len(clog)
        plain = _mpi(x) + hashlib.sha1(_mpi(x)).digest()
        if clog[0][0] != plain:
            return "protected secret key: the octets encrypted are not MPI(x) || SHA-1(MPI(x))"
        ct = clog[0][1]
        # decryptable as RFC 4880 5.5.3 / 3.7.1.3 say: iterated and salted S2K (SHA-256, count octet 0xAC), AES-256 in CFB mode
        key = _s2k_iter_sha256(pw, coins[0], 0xAC, 32)
        if _cfb_decrypt(key, coins[1], ct) != plain:
            return "protected secret key: the cipher text is not AES-256-CFB of the secret part under the S2K key"
        body = _pub_body(4, t, algo, b"".join(_mpi(m) for m in ms)) + bytes([254, 9, 3, 8]) + coins[0] + b"\xac" + coins[1] + ct
        want = _pkt(ptag, body)
        if _b(got) != want:
            return "protected secret key packet differs from RFC 4880 5.5.3: library %s, reference %s" % (got[:80], want.hex()[:80])
        st["cov"].add("secprot:%d:a%d" % (ptag, algo))
        _remember(st, got, "secprot tag=%d time=%d algo=%d %s sk=9 s2k=3 hash=8 salt=%s count=172 iv=%s ct=%s" %
                  (ptag, t & 0xFFFFFFFF, algo, _matstr(algo, ms), coins[0].hex(), coins[1].hex(), ct.hex()))
        return None

    if op == "pgpenc.secexp":
        ptag, t, algo = (int(x) for x in a[:3]); m1 = _ints(a[3]); m2 = _ints(a[5]); xi, xpi = int(a[6]), int(a[7])
        strs = [_b(x) for x in a[4][1:-1].split(",")] if a[4] != "[]" else []
        sec = _mpi(xi) + _mpi(xpi)
        body = (b"\x04" + _t4(t) + bytes([algo]) + b"".join(_mpi(m) for m in m1) + b"".join(_len(len(x)) + x for x in strs) +
                b"".join(_mpi(m) for m in m2) + b"\0" + sec + (sum(sec) & 0xFFFF).to_bytes(2, "big"))
        if _b(got) != _pkt(ptag, body):
            return "experimental secret key packet (algorithm %d) differs from its description: library %s, reference %s" % (algo, got[:80], _pkt(ptag, body).hex()[:80])
        st["cov"].add("secexp:a%d" % algo)
        return None

    if op in ("pgpenc.uid", "pgpenc.sed", "pgpenc.seipd", "pgpenc.mdc"):
        d = _b(a[0])
        kind = op[7:]
        want = {"uid": _pkt(13, d), "sed": _pkt(9, d), "seipd": _pkt(18, b"\x01" + d), "mdc": b"\xd3\x14" + d}[kind]
        if _b(got) != want:
            return "%s packet differs from RFC 4880: library %s, reference %s" % (kind, got[:80], want.hex()[:80])
        st["cov"].add(kind)
        why = None
        if kind in ("sed", "seipd") and not d:
            why = "no encrypted data"
        _remember(st, got, "%s %s" % (kind, _hx(d)), why)
        return None

    if op == "pgpenc.lit":
        t, d = int(a[0]), _b(a[1])
        want = _pkt(11, b"b\0" + _t4(t) + d)
        if _b(got) != want:
            return "literal data packet differs from RFC 4880 5.9: library %s, reference %s" % (got[:80], want.hex()[:80])
        st["cov"].add("lit")
        _remember(st, got, "lit format=98 fname=- time=%d data=%s" % (t & 0xFFFFFFFF, _hx(d)), None if d else "empty literal data")
        return None

    if op == "pgpenc.aead":
        sk, ae, cs = int(a[0]), int(a[1]), int(a[2]); iv, enc = _b(a[3]), _b(a[4])
        want = _pkt(20, bytes([1, sk, ae, cs]) + iv + enc)
        if _b(got) != want:
            return "AEAD encrypted data packet differs from 4880bis 5.16: library %s, reference %s" % (got[:80], want.hex()[:80])
        st["cov"].add("aead:%d" % ae)
        ivlen = {1: 16, 2: 15}.get(ae)
        if ivlen is not None and len(iv) == ivlen:
            _remember(st, got, "aead sk=%d ae=%d cs=%d iv=%s enc=%s" % (sk, ae, cs, iv.hex(), _hx(enc)), None if enc else "no encrypted data")
        return None

    if op == "pgpenc.pkesk":
        algo = int(a[0]); keyid = _b(a[1]); ms = _ints(a[2]); rkw = _b(a[3])
        body = b"\x03" + keyid + bytes([algo]) + b"".join(_mpi(m) for m in ms)
        if algo == 18:
            body += bytes([len(rkw) & 0xFF]) + rkw
        want = _pkt(1, body)
        if _b(got) != want:
            return "PKESK packet (algorithm %d) differs from RFC 4880 5.1 / RFC 6637 10: library %s, reference %s" % (algo, got[:80], want.hex()[:80])
        st["cov"].add("pkesk:a%d" % algo)
        why = None
        if len(keyid) != 8:
            why = "key id is not 8 octets"; text = None
        else:
            if algo == 18 and (len(rkw) in (0, 255) or len(rkw) < 2):
                why = "wrapped key of %d octets" % len(rkw)
            elif algo != 18 and ms[-1] == 0:
                why = "final MPI of value zero"
            elif len(body) < 16:
                why = "body shorter than 16 octets"
            text = "pkesk keyid=%s algo=%d mpis=[%s] rkw=%s" % (keyid.hex(), algo, ",".join(str(m) for m in ms), _hx(rkw) if algo == 18 else "-")
        _remember(st, got, text, why)
        return None

    if op == "pgpenc.subpkt":
        t, crit, body = int(a[0]), a[1] == "1", _b(a[2])
        if _b(got) != _sub(t, crit, body):
            return "subpacket %d differs from RFC 4880 5.2.3.1" % t
        st["cov"].add("subpkt")
        return None

    if op.startswith("pgpenc.prep."):
        ver, want, area = _ref_prep(op, a)
        if _b(got) != want:
            return "%s: hashed part differs from the reference: library %s, reference %s" % (op, got[:100], want.hex()[:100])
        k = op[len("pgpenc.prep."):]
        st["cov"].add("prep.detached:v%d" % ver if k == "detached" else "prep." + k)
        if len(area) >= 65536:
            return "%s: hashed subpacket area of %d octets, its two-octet length field says %d (RFC 4880 5.2.3: the area cannot exceed 65535 octets; nothing is refused)" % (op, len(area), len(area) & 0xFFFF)
        bad = None
        if k == "detached" and ver == 5 and len(_b(a[7])) not in (20, 32):
            pass                                           # caller passed no fingerprint: version octet 0, documented as an error marker
        else:
            bad = _area_rules(ver, area)
        if bad:
            return "%s: %s" % (op, bad)
        st["areas"] = st.get("areas", 0) + 1
        return None

    if op == "pgpenc.sig":
        hp, left, ms = _b(a[0]), _b(a[1]), _ints(a[2])
        body = hp + b"\0\0" + left + b"".join(_mpi(m) for m in ms)
        want = _pkt(2, body)
        if _b(got) != want:
            return "signature packet differs from RFC 4880 5.2.3: library %s, reference %s" % (got[:80], want.hex()[:80])
        if len(hp) >= 6 and hp[0] in (4, 5):
            st["cov"].add("sig:v%d:a%d" % (hp[0], hp[2]))
            alen = int.from_bytes(hp[4:6], "big")
            area = hp[6:]
            why = None
            if alen != len(area):
                why = "hashed area length field does not match"
            elif hp[2] not in (1, 3, 17, 19, 22):
                why = "no signature algorithm"
            elif ms[-1] == 0:
                why = "final MPI of value zero"
            else:
                subs = _parse_area(area)
                if subs is None:
                    why = "area"
                else:
                    for (t, c, b) in subs:
                        if t in (26,) and len(b) >= 2048 or t == 29 and len(b) > 2049:
                            why = "text subpacket beyond the decoder's 2 KiB limit"
                        if t == 33 and b[:1] not in (b"\x04", b"\x05"):
                            why = "issuer fingerprint of unknown version"
                        if t >= 38 and c:
                            why = "unknown critical subpacket"
            e = _expect_sig_ctx(area) if why is None else None
            text = "sig v=%d type=%d pk=%d hash=%d hspd=%s left=%s mpis=[%s]" % (hp[0], hp[1], hp[2], hp[3], _hx(area), left.hex(), ",".join(str(m) for m in ms))
            _remember(st, got, (text, e), why)
        return None

    if op == "pgpenc.fpr":
        ver, body = int(a[0]), _b(a[1])
        for e in a[2][1:-1].split(","):
            al, i, d = (_b(z) for z in e.split(":"))
            h = {2: hashlib.sha1, 8: hashlib.sha256}.get(al[0])
            if h is None or h(i).digest() != d:
                return "fingerprint: digest in the oracle log is not the hash of its input"
        if ver == 4:
            if len(body) >= 65536:
                return None
            fpr = hashlib.sha1(b"\x99" + len(body).to_bytes(2, "big") + body).digest(); kid = fpr[-8:]
        else:
            fpr = hashlib.sha256(b"\x9a" + len(body).to_bytes(4, "big") + body).digest(); kid = fpr[:8]
        if _b(r[0]) != fpr:
            return "V%d fingerprint differs from RFC 4880 12.2: library %s, reference %s" % (ver, r[0], fpr.hex())
        if _b(r[1]) != kid:
            return "V%d key id differs: library %s, reference %s" % (ver, r[1], kid.hex())
        st["cov"].add("fpr:v%d" % ver)
        return None

    if op == "pgpenc.dec":
        exp = st["expect"].get(a[0])
        res = " ".join(r)
        if tag == "cut" or exp is None:
            # a cut packet, or the packet with other octets after it
            for phex, (text, why) in st["expect"].items():
                if phex != "-" and a[0].startswith(phex) and a[0] != phex and text is not None and why is None and "tail" in tag:
                    t = text[0] if isinstance(text, tuple) else text
                    n = (len(a[0]) - len(phex)) // 2
                    if not (res.startswith(t + " ") or res == t + " rest=%d" % n) or not res.endswith(" rest=%d" % n):
                        return "packet followed by %d octets decodes to %s, expected %s" % (n, res[:120], t[:120])
            return None
        text, why = exp
        st["dec"] += 1
        if res.startswith("reject:"):
            if why is None:
                return "the library's decoder refuses a packet of the library's encoder (%s): %s" % (res, a[0][:80])
            st["refused"][why] = st["refused"].get(why, 0) + 1
            return None
        if why is not None:
            return None                                    # decoded although a refusal was expected: not a defect of the encoder
        if isinstance(text, tuple):
            t, e = text
            head, _, ctx = res.partition(" | ")
            if head != t:
                return "decoded signature fields differ: %s, expected %s" % (head[:160], t[:160])
            have = dict(kv.split("=", 1) for kv in ctx.split(" ") if "=" in kv)
            for k, v in e.items():
                if have.get(k) != v:
                    return "decoded signature: %s=%s, the hashed area says %s" % (k, have.get(k), v)
            if have.get("rest") != "0":
                return "octets left after the packet"
        elif res != text + " rest=0":
            return "decode(encode(fields)) differs: %s, expected %s" % (res[:200], text[:200])
        return None
    return "unknown pgpenc line"


def c19b_final(st0):
    st = st0.get("c19b")
    if not st:
        return "no pgpenc lines"
    missing = [k for k in REQUIRED if k not in st["cov"]]
    if missing:
        return "pgpenc: not exercised: %s" % " ".join(missing)
    mc = [c for c in REQ_CLASSES if c not in st["classes"]]
    if mc:
        return "pgpenc: body length classes not exercised: %s" % " ".join(mc)
    if st["dec"] < 100:
        return "pgpenc: only %d decode(encode) pairs" % st["dec"]
    return None
