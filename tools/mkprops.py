#!/usr/bin/env python3
"""mkprops.py <out.lean> <namespace> <header-file> (<proof-file>:<qualified prefix>:<name>)...
Copies theorem statements from proof files into a property file and proves them by explicit reference.
(A helper for the coordinator; the generated files are committed and reviewed, not regenerated at check time.)"""
import re, sys


def stmt(src, name):
    m0 = re.search(r"\n(?:theorem|lemma) %s[ \n:]" % re.escape(name), src)
    if not m0:
        raise SystemExit("no theorem %s" % name)
    i = m0.start() + 1
    j = src.rfind("/--", 0, i)
    doc = ""
    if j >= 0:
        e = src.index("-/", j) + 2
        if src[e:i].strip() == "" or src[e:i].strip().startswith("omit"):
            doc = src[j:e] + "\n"
    m = re.search(r":=", src[i:])
    # find the := that ends the signature: first ':=' at bracket depth 0
    depth = 0
    k = i
    while k < len(src):
        c = src[k]
        if c in "([{⟨":
            depth += 1
        elif c in ")]}⟩":
            depth -= 1
        elif src.startswith(":=", k) and depth == 0:
            break
        k += 1
    return doc, src[i:k].rstrip()


def binders(body):
    i = body.index(" ", len("theorem "))
    names = []
    j = i
    n = len(body)
    while j < n:
        c = body[j]
        if c == '(':
            d = 1
            k = j + 1
            while d > 0:
                if body[k] == '(':
                    d += 1
                elif body[k] == ')':
                    d -= 1
                k += 1
            grp = body[j + 1:k - 1]
            if ':' in grp:
                names += grp.split(':', 1)[0].split()
            j = k
            continue
        if c in '{[':
            close = {'{': '}', '[': ']'}[c]
            d = 1
            k = j + 1
            while d > 0:
                if body[k] == c:
                    d += 1
                elif body[k] == close:
                    d -= 1
                k += 1
            j = k
            continue
        if c == ':':
            break
        j += 1
    return names


def main():
    out, ns, header = sys.argv[1:4]
    text = open(header).read()
    cache = {}
    for spec in sys.argv[4:]:
        f, prefix, name = spec.split(":")
        src = cache.setdefault(f, open(f).read())
        doc, body = stmt(src, name)
        body = re.sub(r"^lemma ", "theorem ", body)
        text += doc + body + " :=\n  %s.%s %s\n\n" % (prefix, name, " ".join(binders(body)))
    text += "end %s\n" % ns
    open(out, "w").write(text)


if __name__ == "__main__":
    main()
