import json,sys
props={json.loads(l)['id']:json.loads(l) for l in open('/verif/properties.jsonl')}
pid=sys.argv[1]; p=props[pid]
lab=sys.argv[2]
hint=sys.argv[3] if len(sys.argv)>3 else ""
print(f"""You are testing the bug-detection power of an independent verification effort for the C++ library HeikoStamer/libtmcg (LibTMCG: mental-poker cryptography; autotools project, sources under src/, tests under tests/). You must NOT read anything under /verif and must not modify /repo itself.

SETUP: create your own scratch git worktree and build it:
  git -C /repo worktree add /tmp/seed-{lab} HEAD && cd /tmp/seed-{lab} && autoreconf -fi >/dev/null 2>&1 && ./configure >/dev/null && make -j6 >/dev/null 2>&1
(The build takes a few minutes. Tests live in tests/; run a single test with e.g. `cd tests && make check TESTS=t-vtmf`; the full suite takes ~50 minutes, so run only the tests that exercise the code you touch — list which ones you ran.)

PROPERTY under test ({pid}: {p['title']}):
  {p['statement']}
  Quantified over: {p['quantifier']['text']}
  Code anchors: {', '.join(p['anchors']['files'])}

TASK: produce ONE realistic source change (a plausible regression or subtle bug a maintainer could introduce — an off-by-one, a wrong variable, a dropped check, a swapped argument, a changed constant, an 'optimisation') to the library sources in your worktree that BREAKS this property while the library still compiles and the existing tests that exercise that code still pass. Prefer a change that needs something specific to manifest (a particular input value or size, a multi-step sequence of operations, a particular branch such as a negative exponent / a rejected random word / the timing-protection flag off / a particular group type / a boundary size / an unusual but legal parameter), not one that ordinary use exposes at once. {hint}
Do not touch tests/. Keep the change small (a few lines).

DELIVERABLES (write them into /tmp/seed-{lab}-out/):
  1. patch.diff — `git diff` of your change (relative to HEAD, applies with `git apply` in a clean checkout).
  2. demo.cc (or demo.sh) — a small stand-alone demonstration program that links against the library built in your worktree (include <libTMCG.hh>, call init_libTMCG() first; compile e.g. `g++ -I src -I . demo.cc src/.libs/libTMCG.a -lgcrypt -lgpg-error -lgmp -o demo`) which exits 0 on the unchanged library and non-zero (printing what went wrong) with your change applied. Verify both outcomes yourself (build the unchanged library first, run the demo, then apply the change, rebuild, run again).
  3. notes.md — what the change is, why it breaks the property, exactly what is needed for it to manifest, which existing tests you ran with the change and their results.
When finished, remove your worktree's build outputs is NOT necessary — just report. Final answer: a short summary (the change, how it manifests, tests run, paths of the deliverables).""")
