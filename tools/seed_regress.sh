#!/bin/bash
# seed_regress.sh [labels...] : run the quick checks named in seeded/<label>/meta.json (detected_by) against
# every stored seeded change, each in a fresh scratch worktree under /tmp (removed afterwards); one line per
# seed in /tmp/seedreg.log.  /repo itself is never touched.
cd "$(dirname "$0")/.."
L="$@"; [ -z "$L" ] && L=$(ls seeded)
for lab in $L; do
  ids=$(python3 -c "import json;m=json.load(open('seeded/$lab/meta.json'));print(' '.join(m['detected_by'].keys()))")
  out=$(python3 tools/seedtest.py --tree /tmp/seed-$lab $ids 2>&1 | cut -c1-120 | tr '\n' ';')
  echo "$lab: $out" >> /tmp/seedreg.log
  git -C /repo worktree remove --force /tmp/seed-$lab 2>/dev/null
done
echo DONE >> /tmp/seedreg.log
