#!/bin/bash
# confirm_seed.sh <label> "<tests>" : in the seeding agent's scratch worktree /tmp/seed-<label>
# (outside /repo and /verif): build unchanged -> demo must exit 0; apply patch -> build -> demo must
# exit non-zero; run the named existing tests with the change. Prints a one-line verdict.
L=$1; TESTS=$2; W=/tmp/seed-$L; O=/tmp/seed-$L-out
cd $W || exit 2
git checkout -q -- . 2>/dev/null
make -j8 >/dev/null 2>&1 || { echo "$L: clean build failed"; exit 2; }
if [ -f $O/demo.cc ]; then g++ -w -I src -I . $O/demo.cc src/.libs/libTMCG.a -lgcrypt -lgpg-error -lgmp -o /tmp/demo-$L-clean 2>/dev/null || { echo "$L: demo does not compile"; exit 2; }; timeout 600 /tmp/demo-$L-clean >/tmp/demo-$L-clean.out 2>&1; C=$?; else C=skip; fi
git apply $O/patch.diff || { echo "$L: patch does not apply"; exit 2; }
make -j8 >/dev/null 2>&1 || { echo "$L: patched build failed"; git checkout -q -- .; exit 2; }
if [ -f $O/demo.cc ]; then g++ -w -I src -I . $O/demo.cc src/.libs/libTMCG.a -lgcrypt -lgpg-error -lgmp -o /tmp/demo-$L-patched 2>/dev/null; timeout 600 /tmp/demo-$L-patched >/tmp/demo-$L-patched.out 2>&1; P=$?; else P=skip; fi
T=""
if [ -n "$TESTS" ]; then (cd tests && make check TESTS="$TESTS" > /tmp/tests-$L.log 2>&1); T=$(grep -E "^(PASS|FAIL|ERROR)" /tmp/tests-$L.log | tr '\n' ' '); fi
git checkout -q -- .
echo "$L: demo clean exit=$C patched exit=$P tests: $T"
rm -f /tmp/demo-$L-clean /tmp/demo-$L-patched
