#!/usr/bin/env python3
"""seedtest.py <patch.diff> <ID> [<ID> ...] : apply a seeded change to /repo, run the quick checks,
undo the change (always), print one line per check."""
import subprocess, sys, os
# seedtest.py --tree <dir> <ID>... : run the checks against a scratch tree that already contains the change
# (VERIF_REPO), leaving /repo alone -- used while other work builds from /repo concurrently
if sys.argv[1] == "--tree":
    tree = os.path.abspath(sys.argv[2]); ids = sys.argv[3:]
    if not os.path.isdir(tree):
        # a stored seed: fresh scratch worktree outside /repo and /verif, configured only (tools/build_repo.py compiles the sources itself)
        subprocess.run(["git", "-C", "/repo", "worktree", "add", "--detach", tree, "HEAD"], capture_output=True)
        subprocess.run("autoreconf -fi >/dev/null 2>&1 && ./configure >/dev/null 2>&1", shell=True, cwd=tree)
    # bring the scratch worktree to /repo's current HEAD (fix commits made meanwhile) and re-apply the change
    pf = tree + "-out/patch.diff"
    if not os.path.exists(pf):
        pf = os.path.join(os.path.dirname(os.path.dirname(os.path.abspath(__file__))), "seeded", os.path.basename(tree)[5:], "patch.diff")
    head = subprocess.run(["git", "-C", "/repo", "rev-parse", "HEAD"], capture_output=True, text=True).stdout.strip()
    def tg(*a): return subprocess.run(["git", "-C", tree] + list(a), capture_output=True, text=True)
    tg("checkout", "-q", "--", "."); tg("checkout", "-q", "--detach", head)
    r = tg("apply", pf)
    if r.returncode != 0:
        print("patch does not apply to current HEAD:", r.stderr); sys.exit(2)
    env = dict(os.environ, VERIF_REPO=tree, VERIF_EVIDENCE_DIR="/tmp/seed-evidence", VERIF_REPLAY_DIR="/tmp/seed-replays",
               VERIF_SEED=os.environ.get("VERIF_SEED", "1"))
    for i in ids:
        p = subprocess.run([sys.executable, os.path.join(os.path.dirname(__file__), "check.py"), i], capture_output=True, text=True, env=env)
        lines = [l for l in p.stdout.splitlines() if l.startswith(("VIOLATION", "OK", "KNOWN"))]
        print(i, "exit", p.returncode, "|", " ; ".join(lines)[:600])
    sys.exit(0)
patch = os.path.abspath(sys.argv[1]); ids = sys.argv[2:]
def git(*a): return subprocess.run(["git", "-C", "/repo"] + list(a), capture_output=True, text=True)
assert git("status", "--porcelain").stdout.strip() == "", "/repo not clean"
r = git("apply", patch)
if r.returncode != 0:
    print("patch does not apply:", r.stderr); sys.exit(2)
try:
    for i in ids:
        p = subprocess.run([sys.executable, os.path.join(os.path.dirname(__file__), "check.py"), i], capture_output=True, text=True,
                           env=dict(os.environ, VERIF_SEED=os.environ.get("VERIF_SEED", "1")))
        lines = [l for l in p.stdout.splitlines() if l.startswith(("VIOLATION", "OK", "KNOWN"))]
        print(i, "exit", p.returncode, "|", " ; ".join(lines)[:400])
finally:
    git("checkout", "--", ".")
    assert git("status", "--porcelain").stdout.strip() == ""
